(* Model of src/types/mapping.rs (insert_impl, merge, get) and of Value::merge /
   Value::flattened / Mapping::flattened in src/types/value.rs. *)
From RV Require Export Model.Value.

(** * Lookup *)
Fixpoint m_find (k : value) (m : mapping) : option entry :=
  match m with
  | [] => None
  | e :: m' => if value_eqb (e_key e) k then Some e else m_find k m'
  end.

Definition m_get (k : value) (m : mapping) : option value := option_map e_val (m_find k m).
Definition m_has (k : value) (m : mapping) : bool :=
  match m_find k m with Some _ => true | None => false end.
Definition m_is_const (k : value) (m : mapping) : bool :=
  match m_find k m with Some e => e_const e | None => false end.

(** Replace the entry for [k] in place (IndexMap::insert on an existing key keeps position). *)
Fixpoint m_set (k : value) (f : entry -> entry) (m : mapping) : mapping :=
  match m with
  | [] => []
  | e :: m' => if value_eqb (e_key e) k then f e :: m' else e :: m_set k f m'
  end.

Definition is_pconst (p : option prefix) := match p with Some PConst => true | _ => false end.
Definition is_pover (p : option prefix) := match p with Some POver => true | _ => false end.

(** Layers appended to a key's ValueList: a ValueList value is spliced. *)
Definition layers_of (v : value) : list value :=
  match v with VList l => l | _ => [v] end.

(** Mapping::insert_impl, in code order. *)
Definition insert_impl (m : mapping) (k v : value) (fc fo : bool) : res mapping :=
  let '(k', p) := strip_prefix k in
  match m_find k' m with
  | None =>
      Ok (m ++ [mk_entry k' v (is_pconst p || fc) (is_pover p || fo)])
  | Some e =>
      if e_const e then Err (EConst k')
      else if fo || is_pover p then
        Ok (m_set k' (fun e => mk_entry k' v (fc || is_pconst p) (e_over e)) m)
      else
        let old := e_val e in
        let nl := match old with
                  | VList l => VList (l ++ layers_of v)
                  | _ => VList (old :: layers_of v)
                  end in
        Ok (m_set k' (fun e => mk_entry k' nl (fc || is_pconst p) (e_over e)) m)
  end.

Definition m_insert (m : mapping) (k v : value) : res mapping := insert_impl m k v false false.

(** Mapping::merge: fold over [other]'s entries with [other]'s flags. *)
Definition mapping_merge (m other : mapping) : res mapping :=
  foldM (fun acc e => insert_impl acc (e_key e) (e_val e) (e_const e) (e_over e)) other m.

(** * Value::merge after the null / ValueList pre-processing ([other] is not a ValueList
    any more).  [ck] is the current key text used in the error. *)
Definition merge_core (ck : string) (self other : value) : res value :=
  match self with
  | VNull => Ok other
  | VMap m =>
      match other with
      | VMap o => rmap VMap (mapping_merge m o)
      | _ => Err (EMerge ck (variant other) "mapping")
      end
  | VSeq s =>
      match other with
      | VSeq o => Ok (VSeq (s ++ o))
      | _ => Err (EMerge ck (variant other) "sequence")
      end
  | VLit _ | VBool _ | VNum _ =>
      if is_mapping other || is_sequence other
      then Err (EMerge ck (variant other) (variant self))
      else Ok other
  | VStr _ => Panic PMergeString
  | VList _ => Panic PMergeValueList
  end.

(** * Value::flattened / Mapping::flattened / Value::merge (mutually dependent in Rust;
    here one structural fixpoint: merging element [x] of a ValueList flattens [x] first
    when it is itself a ValueList). *)
Fixpoint flattened (ck : string) (v : value) {struct v} : res value :=
  match v with
  | VList l =>
      (fix go (l : list value) (base : value) {struct l} : res value :=
         match l with
         | [] => Ok base
         | x :: xs =>
             b' <- (if is_null x then Ok VNull
                    else x' <- (match x with VList _ => flattened ck x | _ => Ok x end) ;;
                         merge_core ck base x') ;;
             go xs b'
         end) l VNull
  | VMap es =>
      rmap VMap
        ((fix go (es : list entry) (acc : mapping) {struct es} : res mapping :=
            match es with
            | [] => Ok acc
            | (k, v, c, o) :: es' =>
                fv <- flattened ck v ;;
                acc' <- insert_impl acc k fv c o ;;
                go es' acc'
            end) es [])
  | VSeq s =>
      rmap VSeq
        ((fix go (s : list value) {struct s} : res (list value) :=
            match s with
            | [] => Ok []
            | x :: xs => y <- flattened ck x ;; ys <- go xs ;; Ok (y :: ys)
            end) s)
  | VNull | VBool _ | VLit _ | VNum _ => Ok v
  | VStr _ => Err (EFlattenString ck)
  end.

(** Value::merge *)
Definition value_merge (ck : string) (self other : value) : res value :=
  if is_null other then Ok VNull
  else other' <- (if is_vlist other then flattened ck other else Ok other) ;;
       merge_core ck self other'.

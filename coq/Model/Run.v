(* Line-oriented runner: one case per line in, one observation per line out.  Evaluated
   both inside Coq (vm_compute) and extracted to OCaml; the Rust harness prints the same
   format for the implementation.  Glue for the correspondence check. *)
From RV Require Export Model.Canon.

Definition run_fuel : nat := Z.to_nat 4000.

Definition merge_layers (ys : list yaml) : res mapping :=
  foldM (fun acc y => m <- mapping_of_yaml y ;; mapping_merge acc m) ys [].

Definition run_merge (ts : list string) : string :=
  match ts with
  | n :: ts' =>
      match nat_of_string n with
      | Some n =>
          match p_yamls n ts' with
          | Some (ys, []) => canon_res (fun m => canon true (VMap m)) (merge_layers ys)
          | _ => "badcase"
          end
      | None => "badcase"
      end
  | _ => "badcase"
  end.

Definition run_value (ts : list string) : string :=
  match ts with
  | n :: ts' =>
      match nat_of_string n with
      | Some n =>
          match p_yamls n ts' with
          | Some (ys, []) =>
              canon_res (canon false)
                        (m <- merge_layers ys ;; render_with_self run_fuel (VMap m))
          | _ => "badcase"
          end
      | None => "badcase"
      end
  | _ => "badcase"
  end.

Definition run_token (ts : list string) : string :=
  match ts with
  | [String "S" h] =>
      match unhex h with
      | Some s =>
          match token_parse s with
          | NoRef => "none"
          | Parsed t => sp "tok" (canon_token t)
          | ParseError => "parseerr"
          | ParseFuel => "fuel"
          end
      | None => "badcase"
      end
  | _ => "badcase"
  end.

(** list u|r <nlists> (<len> S.. S..)* : each list is built with From<Vec<String>>, then
    merged left to right into an empty list. *)
Fixpoint p_lists (n : nat) (ts : list string) : option (list (list string)) :=
  match n with
  | 0 => match ts with [] => Some [] | _ => None end
  | S n' =>
      match ts with
      | k :: ts1 =>
          match nat_of_string k with
          | Some k =>
              match p_strs k ts1 with
              | Some (l, ts2) => option_map (cons l) (p_lists n' ts2)
              | None => None
              end
          | None => None
          end
      | [] => None
      end
  end.

Definition canon_strs (l : list string) : string :=
  (nat_to_string (List.length l) ++ hxs l)%string.

Definition run_list (ts : list string) : string :=
  match ts with
  | kind :: n :: ts' =>
      match nat_of_string n with
      | Some n =>
          match p_lists n ts' with
          | Some ls =>
              if String.eqb kind "u" then
                sp "ok" (canon_strs (fold_left (fun acc l => u_merge acc (u_from l)) ls []))
              else
                let r := fold_left (fun acc l => r_merge acc (r_from l)) ls r_empty in
                sp "ok" (sp (canon_strs (r_items r)) (canon_strs (r_negs r)))
          | None => "badcase"
          end
      | None => "badcase"
      end
  | _ => "badcase"
  end.

Definition tab : string := String (ascii_of_N 9) "".

Definition run_line (line : string) : string :=
  match words line with
  | id :: mode :: ts =>
      (id ++ tab ++
       (if String.eqb mode "merge" then run_merge ts
        else if String.eqb mode "value" then run_value ts
        else if String.eqb mode "token" then run_token ts
        else if String.eqb mode "list" then run_list ts
        else "badmode"))%string
  | _ => "badline"
  end.

(** * inv mode: a whole inventory (files of the classes and nodes directories in walk order),
    configuration, and one operation: render one node or the whole inventory. *)
From RV Require Import Model.Node.

Definition inc_fuel : nat := 200.

Definition p_bool (t : string) : option bool :=
  if String.eqb t "T" then Some true else if String.eqb t "F" then Some false else None.

(** file := <npath> S.. (X | yaml) *)
Definition p_file (ts : list string) : option ((list string * option yaml) * list string) :=
  match ts with
  | k :: ts1 =>
      match nat_of_string k with
      | Some k =>
          match p_strs k ts1 with
          | Some (path, String "X" "" :: ts2) => Some ((path, None), ts2)
          | Some (path, String "R" _ :: ts2) => Some ((path, Some (YTagged "<raw>" YNull)), ts2)   (* unparsed text *)
          | Some (path, String "B" _ :: ts2) => Some ((path, Some (YTagged "<raw>" YNull)), ts2)   (* raw bytes *)
          | Some (path, String "Y" _ :: ts2) => Some ((path, None), ts2)                           (* symlink *)
          | Some (path, String "K" _ :: ts2) =>                                                    (* symlink to a YAML file: its content *)
              match p_yaml (S (List.length ts2)) ts2 with
              | Some (y, ts3) => Some ((path, Some y), ts3)
              | None => None
              end
          | Some (path, String "V" "" :: ts2) =>                                                   (* seen through a symlink *)
              match p_yaml (S (List.length ts2)) ts2 with
              | Some (y, ts3) => Some ((path, Some y), ts3)
              | None => None
              end
          | Some (path, ts2) =>
              match p_yaml (S (List.length ts2)) ts2 with
              | Some (y, ts3) => Some ((path, Some y), ts3)
              | None => None
              end
          | None => None
          end
      | None => None
      end
  | [] => None
  end.

Fixpoint p_files (n : nat) (ts : list string) : option (list (list string * option yaml) * list string) :=
  match n with
  | 0 => Some ([], ts)
  | S n' =>
      match p_file ts with
      | Some (f, ts1) =>
          match p_files n' ts1 with
          | Some (fs, ts2) => Some (f :: fs, ts2)
          | None => None
          end
      | None => None
      end
  end.

Definition p_count_files (ts : list string) :=
  match ts with
  | n :: ts' => match nat_of_string n with Some n => p_files n ts' | None => None end
  | [] => None
  end.

Fixpoint doc_of (p : list string) (files : list (list string * option yaml)) : option (option yaml) :=
  match files with
  | [] => None
  | (q, d) :: fs => if list_eq_dec string_dec p q then Some d else doc_of p fs
  end.

(** A directory registered as an entity cannot be read: the io error is an ordinary error. *)
Definition dir_doc : yaml := YTagged "<directory>" YNull.

Definition is_dir_doc (y : yaml) : bool :=
  match y with YTagged t YNull => String.eqb t "<directory>" | _ => false end.

(** Only files are entities: directories (doc [None]) are walked but never registered. *)
Definition file_paths (files : list (list string * option yaml)) : list (list string) :=
  map fst (filter (fun '(_, d) => match d with Some _ => true | None => false end) files).

Definition class_table (files : list (list string * option yaml)) : res (list cls_entry) :=
  es <- discover KClass true (file_paths files) ;;
  Ok (map (fun e => {| ce_name := en_name e;
                       ce_doc := match doc_of (en_path e) files with
                                 | Some (Some d) => d | _ => dir_doc end;
                       ce_loc := en_loc e |}) es).

Definition node_table (compose : bool) (files : list (list string * option yaml)) : res (list node_entry) :=
  es <- discover KNode compose (file_paths files) ;;
  Ok (map (fun e => {| ne_name := en_name e; ne_path := en_path e;
                       ne_doc := match doc_of (en_path e) files with
                                 | Some (Some d) => d | _ => dir_doc end |}) es).

Definition canon_nodeinfo (i : nodeinfo) : string :=
  (hx (ni_node i) ++ " " ++ hx (ni_name i) ++ " " ++ hx (ni_uri i) ++ " " ++ hx (ni_env i) ++ " A " ++
   canon_strs (ni_apps i) ++ " C " ++ canon_strs (ni_classes i) ++ " P " ++ canon false (VMap (ni_params i)))%string.

Definition sort_index (ix : index) : index :=
  fold_right (fun '(k, ns) acc =>
                (fix ins (l : index) : index :=
                   match l with
                   | [] => [(k, ns)]
                   | (k', ns') :: l' => if String.leb k k' then (k, ns) :: l else (k', ns') :: ins l'
                   end) acc) [] ix.

Fixpoint canon_index (ix : index) : string :=
  match ix with
  | [] => ""
  | (k, ns) :: ix' => (" " ++ hx k ++ " " ++ canon_strs ns ++ canon_index ix')%string
  end.

Fixpoint lookup_info (n : string) (l : list (string * nodeinfo)) : option nodeinfo :=
  match l with
  | [] => None
  | (k, i) :: l' => if String.eqb k n then Some i else lookup_info n l'
  end.

Definition canon_inventory (inv : inventory) : string :=
  let nodes := map fst (sort_index (map (fun '(n, _) => (n, [])) (inv_nodes inv))) in
  ("A" ++ canon_index (sort_index (inv_apps inv)) ++ " C" ++ canon_index (sort_index (inv_classes inv)) ++
   " N " ++ nat_to_string (List.length nodes) ++
   concat_str (map (fun n => match lookup_info n (inv_nodes inv) with
                             | Some i => (" | " ++ canon_nodeinfo i)%string
                             | None => " | ?"
                             end) nodes))%string.

(** When some node fails, the code reports the first failing node in the (hash map) order in
    which results arrive; the observation lists every failing node so that any of them is
    accepted (C13: "the error names a node that fails"). *)
Definition is_ok {A} (r : res A) : bool := match r with Ok _ => true | _ => false end.

Definition canon_inv_result (rs : list (string * res nodeinfo)) : string :=
  match filter (fun '(_, r) => negb (is_ok r)) rs with
  | [] => canon_res canon_inventory (inventory_of rs empty_inventory)
  | errs => ("errs" ++ concat_str (map (fun '(n, r) => (" || " ++ hx n ++ " " ++ canon_res (fun _ => "") r)%string) errs))%string
  end.

Definition run_inv (ts : list string) : string :=
  match ts with
  | ig :: co :: dots :: ts1 =>
      match p_bool ig, p_bool co, p_bool dots with
      | Some ig, Some co, Some dots =>
          match ts1 with
          | nm :: ts2 =>
              match nat_of_string nm with
              | Some nm =>
                  match (match p_strs nm ts2 with
                         | Some (_, k :: ts2') =>
                             match nat_of_string k with Some k => p_strs k ts2' | None => None end
                         | _ => None
                         end) with
                  | Some (matches, ts3) =>
                      match p_count_files ts3 with
                      | Some (cfiles, ts4) =>
                          match p_count_files ts4 with
                          | Some (nfiles, ts5) =>
                              let cfg := {| c_ignore := ig; c_matches := matches;
                                            c_compose := co; c_literal_dots := dots |} in
                              let tables := (nt <- node_table co nfiles ;; ct <- class_table cfiles ;; Ok (nt, ct)) in
                              match ts5 with
                              | [op; String "S" h] =>
                                  if String.eqb op "node" then
                                    match unhex h with
                                    | Some name =>
                                        canon_res canon_nodeinfo
                                          ('(nt, ct) <- tables ;;
                                           render_node inc_fuel run_fuel cfg "<NODES>" nt ct name)
                                    | None => "badcase"
                                    end
                                  else "badcase"
                              | [op] =>
                                  if String.eqb op "all" then
                                    match tables with
                                    | Ok (nt, ct) =>
                                        canon_inv_result
                                          (map (fun ne => (ne_name ne,
                                                           render_node inc_fuel run_fuel cfg "<NODES>" nt ct (ne_name ne)))
                                               nt)
                                    | Err e => canon_res (fun _ : unit => "") (Err e)
                                    | Panic s => canon_res (fun _ : unit => "") (Panic s)
                                    | OutOfFuel => "fuel"
                                    end
                                  else if String.eqb op "names" then
                                    canon_res (fun '(ns, cs) =>
                                                 ("N" ++ canon_index (sort_index (map (fun e => (en_name e, [join "/" (en_path e)])) ns)) ++
                                                  " C" ++ canon_index (sort_index (map (fun e => (en_name e, [join "/" (en_path e)])) cs)))%string)
                                              (ns <- discover KNode co (file_paths nfiles) ;;
                                               cs <- discover KClass true (file_paths cfiles) ;; Ok (ns, cs))
                                  else "badcase"
                              | _ => "badcase"
                              end
                          | None => "badcase"
                          end
                      | None => "badcase"
                      end
                  | None => "badcase"
                  end
              | None => "badcase"
              end
          | [] => "badcase"
          end
      | _, _, _ => "badcase"
      end
  | _ => "badcase"
  end.

Definition run_abs (ts : list string) : string :=
  match ts with
  | n :: ts1 =>
      match nat_of_string n with
      | Some n =>
          match p_strs n ts1 with
          | Some (loc, [String "S" h]) =>
              match unhex h with
              | Some cls => sp "ok" (hx (abs_class_name loc cls))
              | None => "badcase"
              end
          | _ => "badcase"
          end
      | None => "badcase"
      end
  | _ => "badcase"
  end.

Definition run_line2 (line : string) : string :=
  match words line with
  | id :: mode :: ts =>
      if String.eqb mode "inv" then (id ++ tab ++ run_inv ts)%string
      else if String.eqb mode "abs" then (id ++ tab ++ run_abs ts)%string
      else run_line line
  | _ => "badline"
  end.

(** * textof mode (oracle for C05): text form, per Spec/TextOf.v, of a rendered value given as
    data (strings are literals). *)
From RV Require Import Spec.TextOf.

Fixpoint literalize (v : value) {struct v} : value :=
  match v with
  | VStr s => VLit s
  | VSeq l => VSeq (map literalize l)
  | VMap es => VMap (map (fun '(k, x, c, o) => (k, literalize x, c, o)) es)
  | _ => v
  end.

Definition run_textof (ts : list string) : string :=
  match p_yaml (S (List.length ts)) ts with
  | Some (y, []) =>
      match value_of_yaml y with
      | Ok v => match text_of (literalize v) with
                | Some s => sp "ok" (hx s)
                | None => "notclosed"
                end
      | _ => "badcase"
      end
  | _ => "badcase"
  end.

Definition run_line3 (line : string) : string :=
  match words line with
  | id :: mode :: ts =>
      if String.eqb mode "textof" then (id ++ tab ++ run_textof ts)%string
      else run_line2 line
  | _ => "badline"
  end.

(** * spec mode (oracle for C02 / C09 / C10): Spec/DeepMerge.v on a stack of layers *)
From RV Require Import Spec.DeepMerge.

Definition run_spec (ts : list string) : string :=
  match ts with
  | n :: ts' =>
      match nat_of_string n with
      | Some n =>
          match p_yamls n ts' with
          | Some (ys, []) =>
              match deep_merge run_fuel ys with
              | SOk v => sp "ok" (canon false v)
              | SErr (SConst k) => sp "err EConst" (canon false k)
              | SErr SConflict => "err EMerge"
              | SErr (SPanic s) => sp "panic" (site_name s)
              | SFuel => "fuel"
              end
          | _ => "badcase"
          end
      | None => "badcase"
      end
  | _ => "badcase"
  end.

(** value2: render, then render the result again against itself (C07 fixed point) *)
Definition run_value2 (ts : list string) : string :=
  match ts with
  | n :: ts' =>
      match nat_of_string n with
      | Some n =>
          match p_yamls n ts' with
          | Some (ys, []) =>
              match (m <- merge_layers ys ;; render_with_self run_fuel (VMap m)) with
              | Ok v1 =>
                  match render_with_self run_fuel v1 with
                  | Ok v2 => ("ok " ++ canon false v1 ++ " || " ++ canon false v2)%string
                  | r => ("ok " ++ canon false v1 ++ " || " ++ canon_res (canon false) r)%string
                  end
              | r => canon_res (canon false) r
              end
          | _ => "badcase"
          end
      | None => "badcase"
      end
  | _ => "badcase"
  end.

Definition run_line4 (line : string) : string :=
  match words line with
  | id :: mode :: ts =>
      if String.eqb mode "spec" then (id ++ tab ++ run_spec ts)%string
      else if String.eqb mode "value2" then (id ++ tab ++ run_value2 ts)%string
      else run_line3 line
  | _ => "badline"
  end.

(** * config mode (C20): a history of configuration calls; after every call the reported
    settings and the behaviour bits (is_class_ignored on the probe names) are printed. *)
From RV Require Import Model.Config.

Definition p_opt_str (t : string) : option (option string) :=
  match t with
  | String "-" "" => Some None
  | String "S" h => option_map Some (unhex h)
  | _ => None
  end.

Definition p_opt_bool (t : string) : option (option bool) :=
  if String.eqb t "-" then Some None else option_map Some (p_bool t).

Fixpoint p_entries (n : nat) (ts : list string) : option (list (string * yaml) * list string) :=
  match n with
  | 0 => Some ([], ts)
  | S n' =>
      match ts with
      | String "S" h :: ts1 =>
          match unhex h, p_yaml (S (List.length ts1)) ts1 with
          | Some k, Some (y, ts2) =>
              match p_entries n' ts2 with
              | Some (es, ts3) => Some ((k, y) :: es, ts3)
              | None => None
              end
          | _, _ => None
          end
      | _ => None
      end
  end.

Definition p_counted {A} (p : nat -> list string -> option (A * list string)) (ts : list string) :=
  match ts with
  | n :: ts' => match nat_of_string n with Some n => p n ts' | None => None end
  | [] => None
  end.

Fixpoint p_ops (f : nat) (ts : list string) : option (list cop) :=
  match f with
  | 0 => None
  | S f' =>
      match ts with
      | [] => Some []
      | op :: ts1 =>
          if String.eqb op "new" then
            match ts1 with
            | a :: b :: c :: d :: ts2 =>
                match p_opt_str a, p_opt_str b, p_opt_str c, p_opt_bool d, p_ops f' ts2 with
                | Some a, Some b, Some c, Some d, Some r => Some (ONew a b c d :: r)
                | _, _, _, _, _ => None
                end
            | _ => None
            end
          else if String.eqb op "load" then
            match ts1 with
            | String "S" h :: ts2 =>
                match unhex h, p_counted p_entries ts2 with
                | Some file, Some (es, ts3) => option_map (cons (OLoad file es)) (p_ops f' ts3)
                | _, _ => None
                end
            | _ => None
            end
          else if String.eqb op "dict" then
            match ts1 with
            | String "S" h :: ts2 =>
                match unhex h, p_counted p_entries ts2 with
                | Some inv, Some (es, ts3) => option_map (cons (ODict inv es)) (p_ops f' ts3)
                | _, _ => None
                end
            | _ => None
            end
          else if String.eqb op "regexp" then
            match p_counted p_strs ts1 with
            | Some (ps, ts2) => option_map (cons (OSetRegexp ps)) (p_ops f' ts2)
            | None => None
            end
          else if String.eqb op "ignore" then
            match ts1 with
            | b :: ts2 => match p_bool b with Some b => option_map (cons (OSetIgnore b)) (p_ops f' ts2) | None => None end
            | _ => None
            end
          else if String.eqb op "compose" then
            match ts1 with
            | b :: ts2 => match p_bool b with Some b => option_map (cons (OSetCompose b)) (p_ops f' ts2) | None => None end
            | _ => None
            end
          else if String.eqb op "setflag" then option_map (cons OSetFlag) (p_ops f' ts1)
          else if String.eqb op "unsetflag" then option_map (cons OUnsetFlag) (p_ops f' ts1)
          else if String.eqb op "clearflags" then option_map (cons OClearFlags) (p_ops f' ts1)
          else None
      end
  end.

Fixpoint pair_up (l : list string) : list (string * string) :=
  match l with
  | a :: b :: l' => (a, b) :: pair_up l'
  | _ => []
  end.

Definition tf (b : bool) : string := if b then "T" else "F".

Definition canon_config (matches : string -> string -> bool) (probes : list string) (c : config) : string :=
  (hx (cf_inv c) ++ " " ++ hx (cf_nodes c) ++ " " ++ hx (cf_classes c) ++ " " ++ tf (cf_ignore c) ++ tf (cf_compose c) ++
   tf (cf_dots c) ++ " " ++ canon_strs (cf_reported c) ++ " B" ++
   concat_str (map (fun n => tf (is_class_ignored matches c n)) probes))%string.

Definition default_config : config :=
  {| cf_inv := ""; cf_nodes := ""; cf_classes := ""; cf_ignore := false; cf_compose := false;
     cf_reported := []; cf_compiled := []; cf_dots := false |}.

Definition run_config (ts : list string) : string :=
  match p_counted p_strs ts with
  | Some (bad, ts1) =>
      match p_counted p_strs ts1 with
      | Some (mflat, ts2) =>
          match p_counted p_strs ts2 with
          | Some (probes, ts3) =>
              match p_ops (S (List.length ts3)) ts3 with
              | Some ops =>
                  let compiles p := negb (mem p bad) in
                  let mp := pair_up mflat in
                  let matches p n := existsb (fun '(a, b) => String.eqb a p && String.eqb b n) mp in
                  let fix go (ops : list cop) (c : config) (started : bool) : string :=
                    match ops with
                    | [] => ""
                    | o :: ops' =>
                        let '(c', ok) := cfg_step compiles c o in
                        let started' := started || ok in
                        ((if ok then " | ok " else " | err ") ++
                         (if started' then canon_config matches probes c' else "-") ++ go ops' c' started')%string
                    end in
                  ("ok" ++ go ops default_config false)%string
              | None => "badcase"
              end
          | None => "badcase"
          end
      | None => "badcase"
      end
  | None => "badcase"
  end.

Definition run_line5 (line : string) : string :=
  match words line with
  | id :: mode :: ts =>
      if String.eqb mode "config" then (id ++ tab ++ run_config ts)%string
      else run_line4 line
  | _ => "badline"
  end.

(** * pynode op (C19): the parameters of a rendered node as Python objects *)
From RV Require Import Model.Py.

Fixpoint canon_py (o : pyobj) {struct o} : string :=
  match o with
  | PyNone => "N"
  | PyBool true => "T"
  | PyBool false => "F"
  | PyInt z => ("I" ++ Z_to_string z)%string
  | PyFloat f => "D?"
  | PyStr s => ("Q" ++ hex s)%string
  | PyList l =>
      (("L" ++ nat_to_string (List.length l)) ++
       (fix go (l : list pyobj) : string :=
          match l with [] => "" | x :: xs => (" " ++ canon_py x ++ go xs)%string end) l)%string
  | PyDict es =>
      (("M" ++ nat_to_string (List.length es)) ++
       (fix go (es : list (pyobj * pyobj)) : string :=
          match es with [] => "" | (k, x) :: es' => (" " ++ canon_py k ++ " " ++ canon_py x ++ go es')%string end) es)%string
  end.

Definition run_pynode (ts : list string) : string :=
  (* same case layout as inv mode, op = pynode S<name> *)
  match ts with
  | ig :: co :: dots :: ts1 =>
      match p_bool ig, p_bool co, p_bool dots with
      | Some ig, Some co, Some dots =>
          match p_counted p_strs ts1 with
          | Some (_, ts2) =>
              match p_counted p_strs ts2 with
              | Some (matches, ts3) =>
                  match p_count_files ts3 with
                  | Some (cfiles, ts4) =>
                      match p_count_files ts4 with
                      | Some (nfiles, [op; String "S" h]) =>
                          match unhex h with
                          | Some name =>
                              let cfg := {| c_ignore := ig; c_matches := matches; c_compose := co; c_literal_dots := dots |} in
                              match ('(nt, ct) <- (nt <- node_table co nfiles ;; ct <- class_table cfiles ;; Ok (nt, ct)) ;;
                                     render_node inc_fuel run_fuel cfg "<NODES>" nt ct name) with
                              | Ok i =>
                                  match as_py_obj (VMap (ni_params i)) with
                                  | PyOk o => ("ok P " ++ canon_py o ++ " C " ++ canon_strs (ni_classes i) ++ " A " ++ canon_strs (ni_apps i))%string
                                  | PyTypeError => "raise TypeError"
                                  | PyPanic => "panic PyValueList"
                                  end
                              | r => canon_res (fun _ => "") r
                              end
                          | None => "badcase"
                          end
                      | _ => "badcase"
                      end
                  | None => "badcase"
                  end
              | None => "badcase"
              end
          | None => "badcase"
          end
      | _, _, _ => "badcase"
      end
  | _ => "badcase"
  end.

Definition is_pynode_line (ts : list string) : bool :=
  match rev ts with
  | _ :: op :: _ => String.eqb op "pynode"
  | _ => false
  end.

Definition run_line6 (line : string) : string :=
  match words line with
  | id :: mode :: ts =>
      if String.eqb mode "inv" && is_pynode_line ts then (id ++ tab ++ run_pynode ts)%string
      else run_line5 line
  | _ => "badline"
  end.

(** value3: a value (the merge of the second group of layers) rendered against a foreign root
    (the merge of the first group): Value::rendered(&root) *)
Definition run_value3 (ts : list string) : string :=
  match ts with
  | n :: ts' =>
      match nat_of_string n with
      | Some n =>
          match p_yamls n ts' with
          | Some (ys, n2 :: ts2) =>
              match nat_of_string n2 with
              | Some n2 =>
                  match p_yamls n2 ts2 with
                  | Some (ys2, []) =>
                      canon_res (canon false)
                        (root <- merge_layers ys ;; m <- merge_layers ys2 ;; rendered run_fuel root (VMap m))
                  | _ => "badcase"
                  end
              | None => "badcase"
              end
          | _ => "badcase"
          end
      | None => "badcase"
      end
  | _ => "badcase"
  end.

Definition run_line7 (line : string) : string :=
  match words line with
  | id :: mode :: ts =>
      if String.eqb mode "value3" then (id ++ tab ++ run_value3 ts)%string
      else run_line6 line
  | _ => "badline"
  end.

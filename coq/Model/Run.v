(* Line-oriented runner: one case per line in, one observation per line out.  Evaluated
   both inside Coq (vm_compute) and extracted to OCaml; the Rust harness prints the same
   format for the implementation.  Glue for the correspondence check. *)
From RV Require Export Model.Canon.

Definition run_fuel : nat := Z.to_nat 4000.

Definition merge_layers (ys : list yaml) : res mapping :=
  foldM (fun acc y => m <- mapping_of_yaml y ;; mapping_merge acc m) ys [].

Definition run_merge (ts : list string) : string :=
  match ts with
  | n :: ts' =>
      match nat_of_string n with
      | Some n =>
          match p_yamls n ts' with
          | Some (ys, []) => canon_res (fun m => canon true (VMap m)) (merge_layers ys)
          | _ => "badcase"
          end
      | None => "badcase"
      end
  | _ => "badcase"
  end.

Definition run_value (ts : list string) : string :=
  match ts with
  | n :: ts' =>
      match nat_of_string n with
      | Some n =>
          match p_yamls n ts' with
          | Some (ys, []) =>
              canon_res (canon false)
                        (m <- merge_layers ys ;; render_with_self run_fuel (VMap m))
          | _ => "badcase"
          end
      | None => "badcase"
      end
  | _ => "badcase"
  end.

Definition run_token (ts : list string) : string :=
  match ts with
  | [String "S" h] =>
      match unhex h with
      | Some s =>
          match token_parse s with
          | NoRef => "none"
          | Parsed t => sp "tok" (canon_token t)
          | ParseError => "parseerr"
          | ParseFuel => "fuel"
          end
      | None => "badcase"
      end
  | _ => "badcase"
  end.

(** list u|r <nlists> (<len> S.. S..)* : each list is built with From<Vec<String>>, then
    merged left to right into an empty list. *)
Fixpoint p_lists (n : nat) (ts : list string) : option (list (list string)) :=
  match n with
  | 0 => match ts with [] => Some [] | _ => None end
  | S n' =>
      match ts with
      | k :: ts1 =>
          match nat_of_string k with
          | Some k =>
              match p_strs k ts1 with
              | Some (l, ts2) => option_map (cons l) (p_lists n' ts2)
              | None => None
              end
          | None => None
          end
      | [] => None
      end
  end.

Definition canon_strs (l : list string) : string :=
  (nat_to_string (List.length l) ++ hxs l)%string.

Definition run_list (ts : list string) : string :=
  match ts with
  | kind :: n :: ts' =>
      match nat_of_string n with
      | Some n =>
          match p_lists n ts' with
          | Some ls =>
              if String.eqb kind "u" then
                sp "ok" (canon_strs (fold_left (fun acc l => u_merge acc (u_from l)) ls []))
              else
                let r := fold_left (fun acc l => r_merge acc (r_from l)) ls r_empty in
                sp "ok" (sp (canon_strs (r_items r)) (canon_strs (r_negs r)))
          | None => "badcase"
          end
      | None => "badcase"
      end
  | _ => "badcase"
  end.

Definition tab : string := String (ascii_of_N 9) "".

Definition run_line (line : string) : string :=
  match words line with
  | id :: mode :: ts =>
      (id ++ tab ++
       (if String.eqb mode "merge" then run_merge ts
        else if String.eqb mode "value" then run_value ts
        else if String.eqb mode "token" then run_token ts
        else if String.eqb mode "list" then run_list ts
        else "badmode"))%string
  | _ => "badline"
  end.

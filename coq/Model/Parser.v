(* Model of src/refs/parser.rs (nom 7.1.3 grammar) and Token::parse in src/refs/mod.rs.
   Only nom `complete` parsers are used and no `cut`, so every failure is a recoverable
   Err::Error: a parser is a function string -> PFail | POk rest out.  PFuel marks fuel
   exhaustion of the model (never a result of the code). *)
From RV Require Export Model.Value.

Inductive token :=
| TLit (s : string)
| TRef (ts : list token)
| TComb (ts : list token).

Inductive pres (A : Type) :=
| PFail
| PFuel
| POk (rest : string) (a : A).
Arguments PFail {A}.
Arguments PFuel {A}.
Arguments POk {A} rest a.

Definition parser (A : Type) := string -> pres A.

Definition pbind {A B} (r : pres A) (f : string -> A -> pres B) : pres B :=
  match r with PFail => PFail | PFuel => PFuel | POk rest a => f rest a end.

(** nom::bytes::complete::tag *)
Fixpoint strip (p s : string) : option string :=
  match p, s with
  | EmptyString, _ => Some s
  | String a p', String b s' => if Ascii.eqb a b then strip p' s' else None
  | _, _ => None
  end.

Definition tag (t : string) : parser string :=
  fun s => match strip t s with Some r => POk r t | None => PFail end.

Definition pmap {A B} (p : parser A) (f : A -> B) : parser B :=
  fun s => pbind (p s) (fun r a => POk r (f a)).

(** nom::combinator::not / peek: never consume *)
Definition pnot {A} (p : parser A) : parser unit :=
  fun s => match p s with PFail => POk s tt | PFuel => PFuel | POk _ _ => PFail end.
Definition ppeek {A} (p : parser A) : parser A :=
  fun s => match p s with POk _ a => POk s a | r => r end.

(** nom::branch::alt: first success *)
Fixpoint alt {A} (ps : list (parser A)) : parser A :=
  fun s => match ps with
           | [] => PFail
           | p :: ps' => match p s with PFail => alt ps' s | r => r end
           end.

Definition pseq {A B} (p : parser A) (q : parser B) : parser (A * B) :=
  fun s => pbind (p s) (fun r a => pbind (q r) (fun r' b => POk r' (a, b))).
Definition preceded {A B} (p : parser A) (q : parser B) : parser B := pmap (pseq p q) snd.

(** nom::character::complete::none_of / nom::bytes::complete::take(1) *)
Fixpoint in_set (c : ascii) (set : string) : bool :=
  match set with EmptyString => false | String a set' => Ascii.eqb a c || in_set c set' end.
Definition none_of (set : string) : parser ascii :=
  fun s => match s with
           | String c s' => if in_set c set then PFail else POk s' c
           | EmptyString => PFail
           end.
Definition take1 : parser string :=
  fun s => match s with String c s' => POk s' (String c "") | EmptyString => PFail end.

(** nom::multi::many1.  The first application must succeed; later ones stop the loop at the
    first failure, and an application that consumes nothing fails the whole many1.  The loop
    runs on local fuel [n]; [S (length s)] always suffices because every iteration that
    continues has consumed at least one character. *)
Fixpoint many1_rest {A} (n : nat) (p : parser A) (s : string) (acc : list A) : pres (list A) :=
  match n with
  | 0 => PFuel
  | S n' =>
      match p s with
      | PFail => POk s (rev acc)
      | PFuel => PFuel
      | POk r a => if Nat.eqb (length r) (length s) then PFail else many1_rest n' p r (a :: acc)
      end
  end.

(** The result is the non-empty list [(first, rest)]. *)
Definition many1 {A} (p : parser A) : parser (A * list A) :=
  fun s => pbind (p s) (fun r a => pbind (many1_rest (S (length r)) p r []) (fun r' l => POk r' (a, l))).

Fixpoint string_of_chars (l : list ascii) : string :=
  match l with [] => "" | c :: l' => String c (string_of_chars l') end.

(** * The grammar *)
Definition ref_open := tag "${".
Definition ref_close := tag "}".
Definition inv_open := tag "$[".
Definition bs : string := String "\"%char "".

Definition ref_escape_open : parser string := preceded (tag bs) ref_open.
Definition inv_escape_open : parser string := preceded (tag bs) inv_open.
Definition ref_escape_close : parser string := preceded (tag bs) ref_close.
Definition double_escape : parser string :=
  pmap (pseq (tag (bs ++ bs)) (ppeek (alt [ref_open; ref_close]))) (fun _ => bs).

Definition ref_not_open : parser unit :=
  pmap (pseq (pnot (tag "${"))
       (pseq (pnot (tag (bs ++ "${")))
       (pseq (pnot (tag (bs ++ bs ++ "${")))
             (pnot (tag (bs ++ "$["))))))
       (fun _ => tt).

Definition ref_not_close : parser unit :=
  pmap (pseq (pnot (tag "}")) (pseq (pnot (tag (bs ++ "}"))) (pnot (tag (bs ++ bs ++ "}")))))
       (fun _ => tt).

Definition specials : string := bs ++ "${}".

Definition ref_text : parser string :=
  alt [ pmap (many1 (none_of specials)) (fun '(c, cs) => string_of_chars (c :: cs));
        pmap (pseq (pnot (tag "}")) take1) snd ].

Definition ref_content : parser string :=
  pmap (pseq ref_not_open (pseq ref_not_close ref_text)) (fun x => snd (snd x)).

Definition ref_string : parser string :=
  pmap (many1 (alt [double_escape; ref_escape_open; ref_escape_close; inv_escape_open; ref_content]))
       (fun '(x, xs) => concat_str (x :: xs)).

(** coalesce_literals on a non-empty token list (many1 never yields an empty one, so the
    [unwrap] on the first element cannot fail: this is reflected in the type). *)
Fixpoint coalesce_rev (acc : list token) (ts : list token) : list token :=
  match ts with
  | [] => rev acc
  | t :: ts' =>
      match acc, t with
      | TLit a :: acc', TLit b => coalesce_rev (TLit (a ++ b) :: acc') ts'
      | _, _ => coalesce_rev (t :: acc) ts'
      end
  end.
Definition coalesce (ts : token * list token) : list token := coalesce_rev [fst ts] (snd ts).

(** reference / ref_item: the only recursion of the grammar.  The code accepts references
    enclosed by at most MAX_REF_NESTING = 128 other references and fails (recoverably) beyond
    that; [b] is the number of nesting levels still allowed, so the recursion is structural. *)
Definition MAX_REF_NESTING : nat := 128.

Fixpoint reference (b : nat) : parser token :=
  match b with
  | 0 => fun _ => PFail                     (* depth > MAX_REF_NESTING *)
  | S b' =>
      fun s =>
        pbind (ref_open s) (fun r1 _ =>
        pbind (many1 (alt [reference b'; pmap ref_string TLit]) r1) (fun r2 toks =>
        pbind (ref_close r2) (fun r3 _ =>
        POk r3 (TRef (coalesce toks)))))
  end.

Definition text : parser string :=
  alt [ pmap (many1 (none_of specials)) (fun '(c, cs) => string_of_chars (c :: cs)); take1 ].

Definition content : parser string :=
  pmap (many1 (pseq ref_not_open text)) (fun '(x, xs) => concat_str (map snd (x :: xs))).

Definition pstring : parser string :=
  alt [double_escape; ref_escape_open; inv_escape_open; content].

Definition item (f : nat) : parser token := alt [reference f; pmap pstring TLit].

(** parser::parse_ref with all_consuming *)
Definition parse_ref_fuel (f : nat) (s : string) : pres token :=
  match many1 (item f) s with
  | PFail => PFail
  | PFuel => PFuel
  | POk rest toks =>
      match rest with
      | EmptyString =>
          match coalesce toks with
          | [t] => POk "" t
          | ts => POk "" (TComb ts)
          end
      | _ => PFail   (* all_consuming *)
      end
  end.

Definition parse_ref (s : string) : pres token := parse_ref_fuel (S MAX_REF_NESTING) s.

(** Token::parse *)
Inductive parsed := NoRef | Parsed (t : token) | ParseError | ParseFuel.
Definition has_marker (s : string) : bool := contains s "${" || contains s "$[".
Definition token_parse (s : string) : parsed :=
  if has_marker s then
    match parse_ref s with
    | POk _ t => Parsed t
    | PFail => ParseError
    | PFuel => ParseFuel
    end
  else NoRef.

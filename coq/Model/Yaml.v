(* YAML AST as delivered by serde_yaml (after merge-key resolution) and its conversion:
   From<serde_yaml::Value> for Value, From<serde_yaml::Mapping> for Mapping
   (src/types/from.rs, src/types/mapping.rs). *)
From RV Require Export Model.Mapping.

Inductive yaml :=
| YNull
| YBool (b : bool)
| YNum (n : num)
| YStr (s : string)
| YSeq (l : list yaml)
| YMap (l : list (yaml * yaml))
| YTagged (tag : string) (y : yaml).

Fixpoint value_of_yaml (y : yaml) {struct y} : res value :=
  match y with
  | YNull => Ok VNull
  | YBool b => Ok (VBool b)
  | YNum n => Ok (VNum n)
  | YStr s => Ok (VStr s)
  | YSeq l =>
      rmap VSeq ((fix go (l : list yaml) : res (list value) :=
                    match l with
                    | [] => Ok []
                    | x :: xs => v <- value_of_yaml x ;; vs <- go xs ;; Ok (v :: vs)
                    end) l)
  | YMap l =>
      rmap VMap ((fix go (l : list (yaml * yaml)) (acc : mapping) : res mapping :=
                    match l with
                    | [] => Ok acc
                    | (k, v) :: l' =>
                        kv <- value_of_yaml k ;;
                        vv <- value_of_yaml v ;;
                        match m_insert acc kv vv with
                        | Ok acc' => go l' acc'
                        | Err _ => Panic PMappingFromUnwrap    (* insert(..).unwrap() *)
                        | Panic p => Panic p
                        | OutOfFuel => OutOfFuel
                        end
                    end) l [])
  | YTagged _ _ => Panic PYamlTagged
  end.

Definition mapping_of_yaml (y : yaml) : res mapping :=
  v <- value_of_yaml y ;;
  match v with VMap m => Ok m | _ => Err (EYamlShape "parameters") end.

(** Value::try_from_yaml / Mapping::try_from_yaml: the fallible conversion used for inventory
    files (Node::from_str): unsupported values and failing insertions are errors. *)
Fixpoint try_value_of_yaml (y : yaml) {struct y} : res value :=
  match y with
  | YNull => Ok VNull
  | YBool b => Ok (VBool b)
  | YNum n => Ok (VNum n)
  | YStr s => Ok (VStr s)
  | YSeq l =>
      rmap VSeq ((fix go (l : list yaml) : res (list value) :=
                    match l with
                    | [] => Ok []
                    | x :: xs => v <- try_value_of_yaml x ;; vs <- go xs ;; Ok (v :: vs)
                    end) l)
  | YMap l =>
      rmap VMap ((fix go (l : list (yaml * yaml)) (acc : mapping) : res mapping :=
                    match l with
                    | [] => Ok acc
                    | (k, v) :: l' =>
                        kv <- try_value_of_yaml k ;;
                        vv <- try_value_of_yaml v ;;
                        acc' <- m_insert acc kv vv ;;
                        go l' acc'
                    end) l [])
  | YTagged t _ => Err (ETagged t)
  end.

Definition try_mapping_of_yaml (y : yaml) : res mapping :=
  v <- try_value_of_yaml y ;;
  match v with VMap m => Ok m | _ => Err (EYamlShape "parameters") end.

(* Model of name handling: Node::abs_class_name (src/node/mod.rs), walk_entity_dir's name
   derivation and duplicate detection (src/lib.rs).  Paths are lists of segments; the
   directory walk itself (walkdir, symlinks) delivers the entry list and is not modelled. *)
From RV Require Export Model.Value Model.Lists.

(** * abs_class_name *)
Fixpoint count_dots (s : string) : nat * string :=
  match s with
  | String "." s' => let '(n, r) := count_dots s' in (S n, r)
  | _ => (0, s)
  end.

(** Path::pop, [n] times, saturating at the empty path *)
Definition drop_last (n : nat) (l : list string) : list string := firstn (List.length l - n) l.

Definition abs_class_name (loc : list string) (cls : string) : string :=
  match count_dots cls with
  | (0, _) => cls
  | (S n, rest) =>
      (* a placeholder is pushed, then one pop per dot: n pops on [loc] *)
      (concat_str (map (fun p => p ++ ".") (drop_last n loc)) ++ rest)%string
  end.

(** * File names *)
Fixpoint rindex_dot (s : string) (i : nat) (last : option nat) : option nat :=
  match s with
  | EmptyString => last
  | String c s' => rindex_dot s' (S i) (if Ascii.eqb c "." then Some i else last)
  end.

Fixpoint take_str (n : nat) (s : string) : string :=
  match n, s with
  | S n', String c s' => String c (take_str n' s')
  | _, _ => ""
  end.
Fixpoint drop_str (n : nat) (s : string) : string :=
  match n, s with
  | S n', String _ s' => drop_str n' s'
  | _, _ => s
  end.

(** std::path rsplit_file_at_dot: (stem, extension) *)
Definition split_ext (name : string) : string * option string :=
  if String.eqb name ".." then (name, None)
  else match rindex_dot name 0 None with
       | None => (name, None)
       | Some 0 => (name, None)
       | Some i => (take_str i name, Some (drop_str (S i) name))
       end.

Definition is_yaml_ext (e : option string) : bool :=
  match e with
  | Some x => String.eqb x "yml" || String.eqb x "yaml"
  | None => false
  end.

Fixpoint last_seg (l : list string) : string :=
  match l with [] => "" | [x] => x | _ :: l' => last_seg l' end.

Definition starts_with_underscore (s : string) : bool :=
  match s with String "_" _ => true | _ => false end.

Inductive ekind := KNode | KClass.

Record entity := { en_name : string; en_path : list string; en_loc : list string }.

(** Name and location derived from a relative path whose last segment has a YAML extension;
    [None] when the entry is not an entity. *)
Definition entity_of (kind : ekind) (compose : bool) (relpath : list string) : option entity :=
  match rev relpath with
  | [] => None
  | fname :: rparent =>
      let parent := rev rparent in
      let '(stem, ext) := split_ext fname in
      if is_yaml_ext ext then
        let '(cls, loc) :=
          if String.eqb stem "init"
          then (parent, removelast parent)
          else (parent ++ [stem], parent) in
        let clsstr := join "/" cls in
        let '(cls2, loc2) :=
          match kind with
          | KNode => if starts_with_underscore clsstr || negb compose
                     then ([last_seg cls], [])
                     else (cls, loc)
          | KClass => (cls, loc)
          end in
        Some {| en_name := join "." cls2; en_path := relpath; en_loc := loc2 |}
      else None
  end.

Fixpoint find_entity (n : string) (es : list entity) : option entity :=
  match es with
  | [] => None
  | e :: es' => if String.eqb (en_name e) n then Some e else find_entity n es'
  end.

Definition kind_name (k : ekind) : string := match k with KNode => "node" | KClass => "class" end.

(** walk_entity_dir over the entries in walk order *)
Fixpoint discover_from (kind : ekind) (compose : bool) (entries : list (list string))
         (acc : list entity) : res (list entity) :=
  match entries with
  | [] => Ok acc
  | p :: rest =>
      match entity_of kind compose p with
      | None => discover_from kind compose rest acc
      | Some e =>
          match find_entity (en_name e) acc with
          | Some prev =>
              let a := join "/" (en_path prev) in
              let b := join "/" p in
              if String.ltb a b then Err (EDuplicate (kind_name kind) (en_name e) a b)
              else Err (EDuplicate (kind_name kind) (en_name e) b a)
          | None => discover_from kind compose rest (acc ++ [e])
          end
      end
  end.

Definition discover (kind : ekind) (compose : bool) (entries : list (list string)) : res (list entity) :=
  discover_from kind compose entries [].

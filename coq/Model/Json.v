(* Model of From<Value> for serde_json::Value, From<Mapping> for serde_json::Map
   (a BTreeMap in this build: keys sorted byte-wise, last insertion wins) and of
   serde_json's compact printer, plus Value::raw_string. *)
From RV Require Export Model.Mapping.

Inductive jvalue :=
| JNull
| JBool (b : bool)
| JNum (text : string)
| JStr (s : string)
| JArr (l : list jvalue)
| JObj (l : list (string * jvalue)).

(** BTreeMap::insert on a list kept sorted by [String.ltb] (byte order) *)
Fixpoint bt_insert (k : string) (v : jvalue) (l : list (string * jvalue)) : list (string * jvalue) :=
  match l with
  | [] => [(k, v)]
  | (k', v') :: l' =>
      if String.eqb k k' then (k, v) :: l'
      else if String.ltb k k' then (k, v) :: l
      else (k', v') :: bt_insert k v l'
  end.

(** Text of an integer inside JSON.  The code converts i64/u64 through `as f64`; see
    DESIGN F4.  [int_json_text] is the single place that models this conversion. *)
Definition int_json_text (z : Z) : string := Z_to_string z.

Definition num_to_json (n : num) : jvalue :=
  match n with
  | NInt z => JNum (int_json_text z)
  | NFloat f =>
      match fk f with
      | FFinite => JNum (f_json f)
      | _ => JStr (f_yaml f)      (* NaN / +-inf rendered as strings *)
      end
  end.

Definition json_key (k : value) : res string :=
  match k with
  | VStr s | VLit s => Ok s
  | VBool true => Ok "true"
  | VBool false => Ok "false"
  | VNum n => Ok (num_display n)
  | VNull => Ok "null"
  | _ => Panic PJsonKey
  end.

Fixpoint to_json (v : value) {struct v} : res jvalue :=
  match v with
  | VNull => Ok JNull
  | VBool b => Ok (JBool b)
  | VNum n => Ok (num_to_json n)
  | VLit s | VStr s => Ok (JStr s)
  | VSeq s =>
      rmap JArr ((fix go (s : list value) : res (list jvalue) :=
                    match s with
                    | [] => Ok []
                    | x :: xs => y <- to_json x ;; ys <- go xs ;; Ok (y :: ys)
                    end) s)
  | VMap es =>
      rmap JObj ((fix go (es : list entry) (acc : list (string * jvalue)) : res (list (string * jvalue)) :=
                    match es with
                    | [] => Ok acc
                    | (k, v, _, _) :: es' =>
                        ks <- json_key k ;;
                        jv <- to_json v ;;
                        go es' (bt_insert ks jv acc)
                    end) es [])
  | VList _ => Panic PJsonValueList
  end.

(** serde_json string escaping *)
Definition hex_digit (n : N) : ascii :=
  match n with
  | 0 => "0" | 1 => "1" | 2 => "2" | 3 => "3" | 4 => "4" | 5 => "5" | 6 => "6" | 7 => "7"
  | 8 => "8" | 9 => "9" | 10 => "a" | 11 => "b" | 12 => "c" | 13 => "d" | 14 => "e" | _ => "f"
  end%N%char.

Definition json_escape_char (c : ascii) : string :=
  let n := N_of_ascii c in
  if N.eqb n 34 then String "\" (String """" "")
  else if N.eqb n 92 then String "\" (String "\" "")
  else if N.eqb n 8 then String "\" "b"
  else if N.eqb n 12 then String "\" "f"
  else if N.eqb n 10 then String "\" "n"
  else if N.eqb n 13 then String "\" "r"
  else if N.eqb n 9 then String "\" "t"
  else if N.ltb n 32 then
    String "\" (String "u" (String "0" (String "0"
      (String (hex_digit (N.div n 16)) (String (hex_digit (N.modulo n 16)) "")))))
  else String c "".

Fixpoint json_escape (s : string) : string :=
  match s with
  | EmptyString => ""
  | String c s' => (json_escape_char c ++ json_escape s')%string
  end.

Definition json_string (s : string) : string := ("""" ++ json_escape s ++ """")%string.

Fixpoint print_json (j : jvalue) : string :=
  match j with
  | JNull => "null"
  | JBool true => "true"
  | JBool false => "false"
  | JNum t => t
  | JStr s => json_string s
  | JArr l =>
      ("[" ++ (fix go (l : list jvalue) : string :=
                match l with
                | [] => ""
                | [x] => print_json x
                | x :: xs => (print_json x ++ "," ++ go xs)%string
                end) l ++ "]")%string
  | JObj l =>
      ("{" ++ (fix go (l : list (string * jvalue)) : string :=
                match l with
                | [] => ""
                | [(k, x)] => (json_string k ++ ":" ++ print_json x)%string
                | (k, x) :: xs => (json_string k ++ ":" ++ print_json x ++ "," ++ go xs)%string
                end) l ++ "}")%string
  end.

(** Value::check_json_compatible: container keys and ValueLists cannot be rendered as JSON *)
Fixpoint check_json (v : value) {struct v} : res unit :=
  match v with
  | VMap es =>
      (fix go (es : list entry) : res unit :=
         match es with
         | [] => Ok tt
         | (k, x, _, _) :: es' =>
             if is_mapping k || is_sequence k || is_vlist k then Err (EJsonKey (variant k))
             else _ <- check_json x ;; go es'
         end) es
  | VSeq l =>
      (fix go (l : list value) : res unit :=
         match l with
         | [] => Ok tt
         | x :: xs => _ <- check_json x ;; go xs
         end) l
  | VList _ => Err EJsonValueList
  | _ => Ok tt
  end.

(** Value::raw_string *)
Definition raw_string (v : value) : res string :=
  match v with
  | VLit s => Ok s
  | VNull => Ok "None"
  | VBool true => Ok "True"
  | VBool false => Ok "False"
  | VMap _ | VSeq _ => _ <- check_json v ;; j <- to_json v ;; Ok (print_json j)
  | VNum n => Ok (num_display n)
  | _ => Err (ERawString (variant v))
  end.

(* Model of src/node/mod.rs (Node::from_str after YAML parsing, read_class, merge_into,
   render_impl, render, render_parameters, Node::parse), src/node/nodeinfo.rs (as_reclass,
   NodeInfo) and src/inventory.rs (aggregation loop). *)
From RV Require Export Model.Yaml Model.Interp Model.Names.

Record ncfg := {
  c_ignore : bool;              (* ignore_class_notfound *)
  c_matches : list string;      (* class names matched by the compiled pattern set (regex oracle) *)
  c_compose : bool;             (* compose_node_name *)
  c_literal_dots : bool         (* CompatFlag::ComposeNodeNameLiteralDots *)
}.

Record node := {
  n_apps : rlist;
  n_classes : ulist;
  n_params : mapping;
  n_loc : list string           (* own_loc; [] for nodes (None) and for top-level classes *)
}.

Definition empty_node : node :=
  {| n_apps := r_empty; n_classes := []; n_params := []; n_loc := [] |}.

Record cls_entry := { ce_name : string; ce_doc : yaml; ce_loc : list string }.

Fixpoint find_class (n : string) (tbl : list cls_entry) : option cls_entry :=
  match tbl with
  | [] => None
  | e :: tbl' => if String.eqb (ce_name e) n then Some e else find_class n tbl'
  end.

(** * Deserialisation of a class / node document (serde derive on [Node]) *)
Fixpoint y_field (name : string) (l : list (yaml * yaml)) : option yaml :=
  match l with
  | [] => None
  | (YStr k, v) :: l' => if String.eqb k name then Some v else y_field name l'
  | _ :: l' => y_field name l'
  end.

(** serde_yaml deserialises the document text directly into the struct: any scalar in a list of
    strings is taken as its source text (the harness writes integers in decimal, booleans as
    true/false, null as null). *)
Definition y_scalar_text (y : yaml) : option string :=
  match y with
  | YStr s => Some s
  | YNum n => Some (num_display n)
  | YBool true => Some "true"
  | YBool false => Some "false"
  | YNull => Some "null"
  | _ => None
  end.

Fixpoint y_strings (l : list yaml) : option (list string) :=
  match l with
  | [] => Some []
  | y :: l' =>
      match y_scalar_text y, y_strings l' with
      | Some s, Some ss => Some (s :: ss)
      | _, _ => None
      end
  end.

Definition y_string_list (what : string) (o : option yaml) : res (list string) :=
  match o with
  | None => Ok []
  | Some (YSeq l) => match y_strings l with Some ss => Ok ss | None => Err (EYamlShape what) end
  | Some _ => Err (EYamlShape what)
  end.

Definition node_of_yaml (loc : list string) (doc : yaml) : res node :=
  match doc with
  | YMap fields =>
      apps <- y_string_list "applications" (y_field "applications" fields) ;;
      classes <- y_string_list "classes" (y_field "classes" fields) ;;
      pdoc <- (match y_field "parameters" fields with
               | None => Ok (YMap [])
               | Some (YMap m) => Ok (YMap m)
               | Some _ => Err (EYamlShape "parameters")
               end) ;;
      let classes' := fold_left u_append (map (abs_class_name loc) (u_from classes)) [] in
      params <- try_mapping_of_yaml pdoc ;;
      Ok {| n_apps := r_from apps; n_classes := classes'; n_params := params; n_loc := loc |}
  | _ => Err (EYamlShape "document")
  end.

(** * read_class *)
Definition read_class (cfg : ncfg) (tbl : list cls_entry) (self_loc : list string) (name : string)
  : res (option node) :=
  let cls := abs_class_name self_loc name in
  match find_class cls tbl with
  | None =>
      if c_ignore cfg && mem cls (c_matches cfg) then Ok None
      else Err (EClassNotFound cls)
  | Some ce =>
      n <- map_err (EDeserialize cls) (node_of_yaml (ce_loc ce) (ce_doc ce)) ;;
      Ok (Some n)
  end.

(** * merge_into: merges self into other, then copies the merged values back *)
Definition merge_into (self other : node) : res (node * node) :=
  let apps := r_merge (n_apps other) (n_apps self) in
  let classes := u_merge (n_classes other) (n_classes self) in
  params <- mapping_merge (n_params other) (n_params self) ;;
  Ok ({| n_apps := apps; n_classes := classes; n_params := params; n_loc := n_loc self |},
      {| n_apps := apps; n_classes := classes; n_params := params; n_loc := n_loc other |}).

(** Name of an include entry: references are rendered against the parameters merged so far,
    with a fresh ResolveState. *)
Definition include_name (fi : nat) (root_params : mapping) (cls : string) : res string :=
  if contains cls "${" then
    match token_parse cls with
    | NoRef => Ok cls
    | ParseError => Err (EParse cls)
    | ParseFuel => OutOfFuel
    | Parsed t => '(v, _) <- token_render fi root_params t st0 ;; raw_string v
    end
  else Ok cls.

(** The loop of render_impl over the include entries of [self], parametrised by the recursive
    call.  [loading] is the chain of classes currently being loaded (include-loop detection). *)
Definition walker := node -> list string -> list string -> node -> res (node * list string * node).

Fixpoint include_loop (fi : nat) (cfg : ncfg) (tbl : list cls_entry) (recur : walker)
         (self_loc loading : list string) (cs : list string) (seen : list string) (root : node)
  : res (list string * node) :=
  match cs with
  | [] => Ok (seen, root)
  | c :: cs' =>
      name0 <- include_name fi (n_params root) c ;;
      let name := abs_class_name self_loc name0 in
      if mem name seen then include_loop fi cfg tbl recur self_loc loading cs' seen root
      else if mem name loading then Err (EIncludeLoop loading name)
      else
        r <- read_class cfg tbl self_loc name ;;
        match r with
        | None => include_loop fi cfg tbl recur self_loc loading cs' seen root
        | Some cn =>
            '(_, seen1, root1) <- recur cn seen (loading ++ [name]) root ;;
            include_loop fi cfg tbl recur self_loc loading cs' (seen1 ++ [name]) root1
        end
  end.

(** * render_impl: [f] bounds the include depth, [fi] is the interpreter fuel. *)
Fixpoint render_impl (f fi : nat) (cfg : ncfg) (tbl : list cls_entry)
         (self : node) (seen loading : list string) (root : node) {struct f}
  : res (node * list string * node) :=
  match f with
  | 0 => OutOfFuel
  | S f' =>
      '(seen', root') <- include_loop fi cfg tbl (render_impl f' fi cfg tbl) (n_loc self) loading
                                      (n_classes self) seen root ;;
      '(self', root'') <- merge_into self root' ;;
      Ok (self', seen', root'')
  end.

(** * NodeInfoMeta::as_reclass *)
Record nmeta := { m_name : string; m_uri : string; m_parts : list string }.

Definition as_reclass (cfg : ncfg) (meta : nmeta) : res mapping :=
  match m_parts meta with
  | [] => Err EMetaParts
  | part0 :: _ =>
      let parts :=
        if c_compose cfg && c_literal_dots cfg then split_on "." (m_name meta)
        else if starts_with_underscore part0 then [last_seg (m_parts meta)]
        else m_parts meta in
      let namedata : mapping :=
        [ mk_entry (VStr "full") (VStr (m_name meta)) false false;
          mk_entry (VStr "parts") (VSeq (map VStr parts)) false false;
          mk_entry (VStr "path") (VStr (join "/" parts)) false false;
          mk_entry (VStr "short") (VStr (last_seg parts)) false false ] in
      Ok [ mk_entry (VStr "environment") (VStr "base") false false;
           mk_entry (VStr "name") (VMap namedata) false false ]
  end.

(** * Node::render *)
Definition render_params (fi : nat) (n : node) : res node :=
  v <- render_with_self fi (VMap (n_params n)) ;;
  match v with
  | VMap m => Ok {| n_apps := n_apps n; n_classes := n_classes n; n_params := m; n_loc := n_loc n |}
  | _ => Err (ERenderNonMapping (variant v))
  end.

Definition node_render (f fi : nat) (cfg : ncfg) (tbl : list cls_entry) (n : node) (meta : nmeta)
  : res node :=
  rc <- as_reclass cfg meta ;;
  p0 <- m_insert [] (VStr "_reclass_") (VMap rc) ;;
  let base := {| n_apps := r_empty; n_classes := n_classes n; n_params := p0; n_loc := [] |} in
  '(base1, seen1, _) <- render_impl f fi cfg tbl base [] [] empty_node ;;
  '(n1, _) <- merge_into n base1 ;;
  render_params fi n1.

(** * Reclass::render_node: discovered node table -> NodeInfo *)
Record node_entry := { ne_name : string; ne_path : list string; ne_doc : yaml }.

Fixpoint find_node (n : string) (tbl : list node_entry) : option node_entry :=
  match tbl with
  | [] => None
  | e :: tbl' => if String.eqb (ne_name e) n then Some e else find_node n tbl'
  end.

Record nodeinfo := {
  ni_node : string; ni_name : string; ni_uri : string; ni_env : string;
  ni_apps : list string; ni_classes : list string; ni_params : mapping
}.

(** relpath with the extension of its last segment removed (PathBuf::with_extension("")) *)
Definition strip_ext_path (p : list string) : list string :=
  match rev p with
  | [] => []
  | f :: r => rev r ++ [fst (split_ext f)]
  end.

Definition render_node (f fi : nat) (cfg : ncfg) (nodes_root : string)
           (ntbl : list node_entry) (ctbl : list cls_entry) (name : string) : res nodeinfo :=
  match find_node name ntbl with
  | None => Err (EUnknownNode name)
  | Some ne =>
      let uri := ("yaml_fs://" ++ nodes_root ++ "/" ++ join "/" (ne_path ne))%string in
      let parts := if c_compose cfg then strip_ext_path (ne_path ne)
                   else (if String.eqb name "" then [] else [name]) in
      n <- node_of_yaml [] (ne_doc ne) ;;
      n' <- node_render f fi cfg ctbl n {| m_name := name; m_uri := uri; m_parts := parts |} ;;
      Ok {| ni_node := name; ni_name := name; ni_uri := uri; ni_env := "base";
            ni_apps := r_items (n_apps n'); ni_classes := n_classes n'; ni_params := n_params n' |}
  end.

(** * Inventory::render aggregation.  [rs] is the list of (node, result) pairs in the order
    in which the parallel collect delivered them. *)
Fixpoint insert_sorted (x : string) (l : list string) : list string :=
  match l with
  | [] => [x]
  | y :: l' => if String.leb x y then x :: l else y :: insert_sorted x l'
  end.
Definition sort_strings (l : list string) : list string := fold_right insert_sorted [] l.

Definition index := list (string * list string).

Fixpoint index_push (k : string) (n : string) (ix : index) : index :=
  match ix with
  | [] => [(k, [n])]
  | (k', ns) :: ix' => if String.eqb k' k then (k', ns ++ [n]) :: ix' else (k', ns) :: index_push k n ix'
  end.

Definition index_sort (ix : index) : index := map (fun '(k, ns) => (k, sort_strings ns)) ix.

Record inventory := {
  inv_apps : index; inv_classes : index; inv_nodes : list (string * nodeinfo)
}.

Definition inv_step (inv : inventory) (name : string) (info : nodeinfo) : inventory :=
  let cls := fold_left (fun ix c => index_push c name ix) (ni_classes info) (inv_classes inv) in
  let aps := fold_left (fun ix a => index_push a name ix) (ni_apps info) (inv_apps inv) in
  {| inv_apps := index_sort aps; inv_classes := index_sort cls;
     inv_nodes := inv_nodes inv ++ [(name, info)] |}.

Fixpoint inventory_of (rs : list (string * res nodeinfo)) (inv : inventory) : res inventory :=
  match rs with
  | [] => Ok inv
  | (name, r) :: rs' =>
      match r with
      | Ok info => inventory_of rs' (inv_step inv name info)
      | Err e => Err (ENodeFailed name e)
      | Panic s => Panic s
      | OutOfFuel => OutOfFuel
      end
  end.

Definition empty_inventory : inventory := {| inv_apps := []; inv_classes := []; inv_nodes := [] |}.

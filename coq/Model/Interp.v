(* Model of reference interpolation: ResolveState, Value::interpolate, Mapping::interpolate,
   Token::render / Token::resolve, interpolate_token_slice, interpolate_string_or_valuelist,
   Value::rendered / render_with_self.  (src/refs/mod.rs, src/types/value.rs,
   src/types/mapping.rs).  One mutual definition on fuel: every Rust call costs one unit;
   fuel bounds the call depth.  State threading follows DESIGN appendix A.1. *)
From RV Require Export Model.Json Model.Parser Model.Lists.

Record rstate := { seen : list string; depth : nat; keys : list string }.
Definition st0 : rstate := {| seen := []; depth := 0; keys := [] |}.

Definition current_key (st : rstate) : string := join "." (keys st).

Definition RESOLVE_MAX_DEPTH : nat := 64.

Fixpoint append_last (l : list string) (suffix : string) : list string :=
  match l with
  | [] => [suffix]                      (* push(String::new()) then write *)
  | [x] => [(x ++ suffix)%string]
  | x :: l' => x :: append_last l' suffix
  end.

Definition push_list_index (st : rstate) (idx : nat) : rstate :=
  {| seen := seen st; depth := depth st;
     keys := append_last (keys st) ("[" ++ nat_to_string idx ++ "]") |}.

Definition push_key (st : rstate) (s : string) : rstate :=
  {| seen := seen st; depth := depth st; keys := keys st ++ [s] |}.

Definition push_mapping_key (st : rstate) (key : value) : res rstate :=
  match raw_string key with
  | Ok s => Ok (push_key st s)
  | Err e =>
      match key with
      | VStr s => Ok (push_key st s)
      | VList _ => Err EKeyValueList
      | VMap _ | VSeq _ => Err e
      | _ => Panic PPushKey
      end
  | Panic p => Panic p
  | OutOfFuel => OutOfFuel
  end.

Definition with_depth (st : rstate) (d : nat) : rstate :=
  {| seen := seen st; depth := d; keys := keys st |}.
Definition add_seen (st : rstate) (p : string) : rstate :=
  {| seen := p :: seen st; depth := depth st; keys := keys st |}.

Definition vstr (s : string) : value := VStr s.

(** The loops of the interpreter, parametrised by the recursive calls (so that facts about
    them are stated once, for any callee). *)
Definition callback := value -> rstate -> res (value * rstate).

(** Sequence arm: each element under a clone of the state with its index pushed *)
Fixpoint seq_loop (call : callback) (st : rstate) (s : list value) (idx : nat) : res (list value) :=
  match s with
  | [] => Ok []
  | it :: s' =>
      '(e, _) <- call it (push_list_index st idx) ;;
      es <- seq_loop call st s' (S idx) ;;
      Ok (e :: es)
  end.

(** ValueList arm: every layer interpolated under a clone of the state and merged over the base *)
Fixpoint vlist_loop (call : callback) (st : rstate) (l : list value) (r : value) : res value :=
  match l with
  | [] => Ok r
  | x :: l' =>
      '(iv, st1) <- call x st ;;
      r' <- value_merge (current_key st1) r iv ;;
      vlist_loop call st l' r'
  end.

(** Mapping::interpolate *)
Fixpoint map_loop (call : callback) (st : rstate) (es : list entry) (acc : mapping) : res mapping :=
  match es with
  | [] => Ok acc
  | (k, v, c, o) :: es' =>
      st1 <- push_mapping_key st k ;;
      '(v', st2) <- call v st1 ;;
      fv <- flattened (current_key st2) v' ;;
      acc' <- insert_impl acc k fv c o ;;
      map_loop call st es' acc'
  end.

(** the descent of Token::resolve through the reference path *)
Fixpoint walk_loop (sov : callback) (path : string) (segs : list string) (v : value) (st : rstate)
         (trav : list string) : res (value * rstate) :=
  match segs with
  | [] => Ok (v, st)
  | key :: segs' =>
      '(newv, st') <- sov v st ;;
      match newv with
      | VMap m =>
          match m_get (VStr key) m with
          | None => Err (EMissingKey path key (current_key st'))
          | Some v' => walk_loop sov path segs' v' st' (trav ++ [key])
          end
      | VSeq _ => Err (ELookupSeq path key (current_key st'))
      | VStr _ | VList _ => Panic PResolveLookup
      | _ => Err (ELookupKind path key (current_key st') (join ":" trav) (variant newv))
      end
  end.

(** interpolate_token_slice: fresh clone of the state per token; the caller's state is unchanged *)
Fixpoint slice_loop (resolve : token -> rstate -> res (value * rstate)) (while_str call : callback)
         (st : rstate) (ts : list token) : res string :=
  match ts with
  | [] => Ok ""
  | t :: ts' =>
      '(v, st1) <- resolve t st ;;
      '(v', st2) <- while_str v st1 ;;
      '(v'', _) <- (if is_mapping v' || is_sequence v'
                    then call v' st2     (* members are rendered before the text is taken *)
                    else Ok (v', st2)) ;;
      s <- raw_string v'' ;;
      rest <- slice_loop resolve while_str call st ts' ;;
      Ok (s ++ rest)%string
  end.

(** layers of a ValueList met during the descent: String layers are interpolated under a clone *)
Fixpoint sov_loop (call : callback) (st : rstate) (l : list value) : res (list value) :=
  match l with
  | [] => Ok []
  | x :: l' =>
      x' <- (if is_string x then '(y, _) <- call x st ;; Ok y else Ok x) ;;
      r <- sov_loop call st l' ;;
      Ok (x' :: r)
  end.

(** The interpreter. *)
Fixpoint interp (f : nat) (root : mapping) (v : value) (st : rstate) {struct f}
  : res (value * rstate) :=
  match f with
  | 0 => OutOfFuel
  | S f' =>
      match v with
      | VStr s =>
          match token_parse s with
          | NoRef => Ok (VLit s, st)
          | ParseError => Err (EParse s)
          | ParseFuel => OutOfFuel
          | Parsed t => token_render f' root t st
          end
      | VMap m => m' <- mapping_interp f' root m st ;; Ok (VMap m', st)
      | VSeq s => l <- seq_loop (interp f' root) st s 0 ;; Ok (VSeq l, st)
      | VList l => r <- vlist_loop (interp f' root) st l VNull ;; interp f' root r st
      | _ => Ok (v, st)
      end
  end

with mapping_interp (f : nat) (root : mapping) (m : mapping) (st : rstate) {struct f}
  : res mapping :=
  match f with
  | 0 => OutOfFuel
  | S f' => map_loop (interp f' root) st m []
  end

with token_render (f : nat) (root : mapping) (t : token) (st : rstate) {struct f}
  : res (value * rstate) :=
  match f with
  | 0 => OutOfFuel
  | S f' =>
      match t with
      | TRef _ =>
          '(v, st1) <- token_resolve f' root t st ;;
          interp f' root v st1
      | _ =>
          '(v, st1) <- token_resolve f' root t st ;;
          s <- raw_string v ;;
          Ok (VLit s, st1)
      end
  end

with token_resolve (f : nat) (root : mapping) (t : token) (st : rstate) {struct f}
  : res (value * rstate) :=
  match f with
  | 0 => OutOfFuel
  | S f' =>
      match t with
      | TLit s => Ok (VLit s, st)
      | TComb ts => s <- token_slice f' root ts st ;; Ok (VLit s, st)
      | TRef parts =>
          let st1 := with_depth st (S (depth st)) in
          if Nat.ltb RESOLVE_MAX_DEPTH (depth st1)
          then Err (EDepth (current_key st1) (seen st1))
          else
            path <- token_slice f' root parts st1 ;;
            if mem path (seen st1) then Err (ELoop (seen st1))
            else
              let st2 := add_seen st1 path in
              match split_on ":" path with
              | [] => Err (EOther "split")           (* split never yields an empty iterator *)
              | k0 :: segs =>
                  match m_get (VStr k0) root with
                  | None => Err (EMissingKey path k0 (current_key st2))
                  | Some v0 =>
                      '(v, st3) <- walk_loop (interp_sov f' root) path segs v0 st2 [k0] ;;
                      interp_while f' root v st3
                  end
              end
      end
  end

with token_slice (f : nat) (root : mapping) (ts : list token) (st : rstate) {struct f}
  : res string :=
  match f with
  | 0 => OutOfFuel
  | S f' => slice_loop (token_resolve f' root) (interp_while_str f' root) (interp f' root) st ts
  end

(** interpolate_string_or_valuelist *)
with interp_sov (f : nat) (root : mapping) (v : value) (st : rstate) {struct f}
  : res (value * rstate) :=
  match f with
  | 0 => OutOfFuel
  | S f' =>
      match v with
      | VStr _ => interp f' root v st
      | VList l =>
          i <- sov_loop (interp f' root) st l ;;
          r <- flattened (current_key st) (VList i) ;;
          Ok (r, st)
      | _ => Ok (v, st)
      end
  end

(** `while v.is_string() || v.is_value_list() { v = v.interpolate(params, state)? }` *)
with interp_while (f : nat) (root : mapping) (v : value) (st : rstate) {struct f}
  : res (value * rstate) :=
  match f with
  | 0 => OutOfFuel
  | S f' =>
      if is_string v || is_vlist v
      then '(v', st') <- interp f' root v st ;; interp_while f' root v' st'
      else Ok (v, st)
  end

(** `while v.is_string() { v = v.interpolate(params, &mut st)? }` *)
with interp_while_str (f : nat) (root : mapping) (v : value) (st : rstate) {struct f}
  : res (value * rstate) :=
  match f with
  | 0 => OutOfFuel
  | S f' =>
      if is_string v
      then '(v', st') <- interp f' root v st ;; interp_while_str f' root v' st'
      else Ok (v, st)
  end.

(** Value::rendered: interpolation errors are wrapped, flattening errors are not. *)
Definition rendered (f : nat) (root : mapping) (v : value) : res value :=
  '(v', st) <- map_err EResolving (interp f root v st0) ;;
  flattened (current_key st) v'.

(** Value::render_with_self *)
Definition render_with_self (f : nat) (v : value) : res value :=
  match v with
  | VMap m => rendered f m v
  | _ => Err (ERenderNonMapping (variant v))
  end.

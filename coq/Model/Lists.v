(* Model of src/list/{mod,unique,removable}.rs *)
From RV Require Export Model.Value.

Fixpoint mem (x : string) (l : list string) : bool :=
  match l with [] => false | y :: l' => String.eqb y x || mem x l' end.

(** Vec::remove(position of first occurrence) *)
Fixpoint remove_first (x : string) (l : list string) : list string :=
  match l with
  | [] => []
  | y :: l' => if String.eqb y x then l' else y :: remove_first x l'
  end.

(** * UniqueList *)
Definition ulist := list string.
Definition u_append (l : ulist) (x : string) : ulist := if mem x l then l else l ++ [x].
Definition u_from (xs : list string) : ulist := fold_left u_append xs [].
Definition u_merge (l other : ulist) : ulist := fold_left u_append other l.

(** * RemovableList *)
Record rlist := { r_items : list string; r_negs : list string }.
Definition r_empty : rlist := {| r_items := []; r_negs := [] |}.

Definition r_handle_negation (l : rlist) (n : string) : rlist :=
  if mem n (r_items l) then {| r_items := remove_first n (r_items l); r_negs := r_negs l |}
  else if mem n (r_negs l) then l
  else {| r_items := r_items l; r_negs := r_negs l ++ [n] |}.

Definition r_append (l : rlist) (item : string) : rlist :=
  match item with
  | String "~" neg => r_handle_negation l neg
  | _ =>
      if mem item (r_negs l) then {| r_items := r_items l; r_negs := remove_first item (r_negs l) |}
      else if mem item (r_items l) then l
      else {| r_items := r_items l ++ [item]; r_negs := r_negs l |}
  end.

Definition r_from (xs : list string) : rlist := fold_left r_append xs r_empty.

(** merge_impl: negations first, then items *)
Definition r_merge (l other : rlist) : rlist :=
  fold_left r_append (r_items other) (fold_left r_handle_negation (r_negs other) l).

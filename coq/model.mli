
val negb : bool -> bool

type nat =
| O
| S of nat

val option_map : ('a1 -> 'a2) -> 'a1 option -> 'a2 option

val fst : ('a1 * 'a2) -> 'a1

val snd : ('a1 * 'a2) -> 'a2

val length : 'a1 list -> nat

val app : 'a1 list -> 'a1 list -> 'a1 list

type comparison =
| Eq
| Lt
| Gt

type uint =
| Nil
| D0 of uint
| D1 of uint
| D2 of uint
| D3 of uint
| D4 of uint
| D5 of uint
| D6 of uint
| D7 of uint
| D8 of uint
| D9 of uint

type signed_int =
| Pos of uint
| Neg of uint

val revapp : uint -> uint -> uint

val rev : uint -> uint

module Little :
 sig
  val double : uint -> uint

  val succ_double : uint -> uint
 end

val add : nat -> nat -> nat

val sub : nat -> nat -> nat

val bool_dec : bool -> bool -> bool

val eqb : bool -> bool -> bool

module Nat :
 sig
  val eqb : nat -> nat -> bool

  val leb : nat -> nat -> bool

  val ltb : nat -> nat -> bool
 end

val removelast : 'a1 list -> 'a1 list

val rev0 : 'a1 list -> 'a1 list

val list_eq_dec : ('a1 -> 'a1 -> bool) -> 'a1 list -> 'a1 list -> bool

val map : ('a1 -> 'a2) -> 'a1 list -> 'a2 list

val fold_left : ('a1 -> 'a2 -> 'a1) -> 'a2 list -> 'a1 -> 'a1

val fold_right : ('a2 -> 'a1 -> 'a1) -> 'a1 -> 'a2 list -> 'a1

val existsb : ('a1 -> bool) -> 'a1 list -> bool

val forallb : ('a1 -> bool) -> 'a1 list -> bool

val filter : ('a1 -> bool) -> 'a1 list -> 'a1 list

val firstn : nat -> 'a1 list -> 'a1 list

type positive =
| XI of positive
| XO of positive
| XH

type n =
| N0
| Npos of positive

type z =
| Z0
| Zpos of positive
| Zneg of positive

module Pos :
 sig
  type mask =
  | IsNul
  | IsPos of positive
  | IsNeg
 end

module Coq_Pos :
 sig
  val succ : positive -> positive

  val add : positive -> positive -> positive

  val add_carry : positive -> positive -> positive

  val pred_double : positive -> positive

  type mask = Pos.mask =
  | IsNul
  | IsPos of positive
  | IsNeg

  val succ_double_mask : mask -> mask

  val double_mask : mask -> mask

  val double_pred_mask : positive -> mask

  val sub_mask : positive -> positive -> mask

  val sub_mask_carry : positive -> positive -> mask

  val mul : positive -> positive -> positive

  val compare_cont : comparison -> positive -> positive -> comparison

  val compare : positive -> positive -> comparison

  val eqb : positive -> positive -> bool

  val iter_op : ('a1 -> 'a1 -> 'a1) -> positive -> 'a1 -> 'a1

  val to_nat : positive -> nat

  val of_succ_nat : nat -> positive

  val of_uint_acc : uint -> positive -> positive

  val of_uint : uint -> n

  val to_little_uint : positive -> uint

  val to_uint : positive -> uint
 end

module N :
 sig
  val succ_double : n -> n

  val double : n -> n

  val add : n -> n -> n

  val sub : n -> n -> n

  val mul : n -> n -> n

  val compare : n -> n -> comparison

  val eqb : n -> n -> bool

  val leb : n -> n -> bool

  val ltb : n -> n -> bool

  val pos_div_eucl : positive -> n -> n * n

  val div_eucl : n -> n -> n * n

  val div : n -> n -> n

  val modulo : n -> n -> n
 end

module Z :
 sig
  val opp : z -> z

  val eqb : z -> z -> bool

  val to_nat : z -> nat

  val of_nat : nat -> z

  val of_N : n -> z

  val of_uint : uint -> z

  val of_int : signed_int -> z

  val to_int : z -> signed_int
 end

type ascii =
| Ascii of bool * bool * bool * bool * bool * bool * bool * bool

val zero : ascii

val one : ascii

val shift : bool -> ascii -> ascii

val ascii_dec : ascii -> ascii -> bool

val eqb0 : ascii -> ascii -> bool

val ascii_of_pos : positive -> ascii

val ascii_of_N : n -> ascii

val n_of_digits : bool list -> n

val n_of_ascii : ascii -> n

val compare0 : ascii -> ascii -> comparison

type string =
| EmptyString
| String of ascii * string

val string_dec : string -> string -> bool

val eqb1 : string -> string -> bool

val compare1 : string -> string -> comparison

val ltb0 : string -> string -> bool

val leb0 : string -> string -> bool

val append : string -> string -> string

val length0 : string -> nat

val string_of_list_ascii : ascii list -> string

val list_ascii_of_string : string -> ascii list

val uint_of_char : ascii -> uint option -> uint option

module NilEmpty :
 sig
  val string_of_uint : uint -> string

  val uint_of_string : string -> uint option
 end

module NilZero :
 sig
  val string_of_uint : uint -> string

  val uint_of_string : string -> uint option

  val string_of_int : signed_int -> string

  val int_of_string : string -> signed_int option
 end

type fkind =
| FFinite
| FNan
| FPosInf
| FNegInf

type ftoken = { fk : fkind; f_yaml : string; f_json : string }

type num =
| NInt of z
| NFloat of ftoken

val fkind_eqb : fkind -> fkind -> bool

val ftoken_eqb : ftoken -> ftoken -> bool

val num_eqb : num -> num -> bool

type value =
| VNull
| VBool of bool
| VStr of string
| VLit of string
| VNum of num
| VMap of (((value * value) * bool) * bool) list
| VSeq of value list
| VList of value list

type entry = ((value * value) * bool) * bool

type mapping = entry list

val mk_entry : value -> value -> bool -> bool -> entry

val e_key : entry -> value

val e_val : entry -> value

val e_const : entry -> bool

val e_over : entry -> bool

val value_eqb : value -> value -> bool

val is_null : value -> bool

val is_string : value -> bool

val is_vlist : value -> bool

val is_mapping : value -> bool

val is_sequence : value -> bool

val variant : value -> string

type prefix =
| PConst
| POver

val strip_prefix : value -> value * prefix option

type site =
| PMergeString
| PMergeValueList
| PJsonValueList
| PJsonKey
| PJsonNumber
| PPushKey
| PResolveLookup
| PParseTrailing
| PCoalesceEmpty
| PYamlTagged
| PMappingFromUnwrap
| PPyValueList
| PMergeKeysUnwrap
| PStackOverflow

type err =
| EConst of value
| EMerge of string * string * string
| EFlattenString of string
| EParse of string
| ELoop of string list
| EDepth of string * string list
| EMissingKey of string * string * string
| ELookupSeq of string * string * string
| ELookupKind of string * string * string * string * string
| ERawString of string
| EKeyValueList
| EJsonKey of string
| EJsonValueList
| ETagged of string
| ERenderNonMapping of string
| EResolving of err
| EClassNotFound of string
| EIncludeLoop of string list * string
| EUnknownNode of string
| EClassPath of string
| EDeserialize of string * err
| EYamlShape of string
| EMetaParts
| EDuplicate of string * string * string * string
| ENodeFailed of string * err
| EConfig of string
| EOther of string

type 'a res =
| Ok of 'a
| Err of err
| Panic of site
| OutOfFuel

val bind : 'a1 res -> ('a1 -> 'a2 res) -> 'a2 res

val rmap : ('a1 -> 'a2) -> 'a1 res -> 'a2 res

val map_err : (err -> err) -> 'a1 res -> 'a1 res

val foldM : ('a2 -> 'a1 -> 'a2 res) -> 'a1 list -> 'a2 -> 'a2 res

val z_to_string : z -> string

val nat_to_string : nat -> string

val z_of_string : string -> z option

val concat_str : string list -> string

val join : string -> string list -> string

val prefixb : string -> string -> bool

val contains : string -> string -> bool

val split_on : ascii -> string -> string list

val num_display : num -> string

val m_find : value -> mapping -> entry option

val m_get : value -> mapping -> value option

val m_set : value -> (entry -> entry) -> mapping -> mapping

val is_pconst : prefix option -> bool

val is_pover : prefix option -> bool

val layers_of : value -> value list

val insert_impl : mapping -> value -> value -> bool -> bool -> mapping res

val m_insert : mapping -> value -> value -> mapping res

val mapping_merge : mapping -> mapping -> mapping res

val merge_core : string -> value -> value -> value res

val flattened : string -> value -> value res

val value_merge : string -> value -> value -> value res

type yaml =
| YNull
| YBool of bool
| YNum of num
| YStr of string
| YSeq of yaml list
| YMap of (yaml * yaml) list
| YTagged of string * yaml

val value_of_yaml : yaml -> value res

val mapping_of_yaml : yaml -> mapping res

val try_value_of_yaml : yaml -> value res

val try_mapping_of_yaml : yaml -> mapping res

type jvalue =
| JNull
| JBool of bool
| JNum of string
| JStr of string
| JArr of jvalue list
| JObj of (string * jvalue) list

val bt_insert :
  string -> jvalue -> (string * jvalue) list -> (string * jvalue) list

val int_json_text : z -> string

val num_to_json : num -> jvalue

val json_key : value -> string res

val to_json : value -> jvalue res

val hex_digit : n -> ascii

val json_escape_char : ascii -> string

val json_escape : string -> string

val json_string : string -> string

val print_json : jvalue -> string

val check_json : value -> unit res

val raw_string : value -> string res

type token =
| TLit of string
| TRef of token list
| TComb of token list

type 'a pres =
| PFail
| PFuel
| POk of string * 'a

type 'a parser0 = string -> 'a pres

val pbind : 'a1 pres -> (string -> 'a1 -> 'a2 pres) -> 'a2 pres

val strip : string -> string -> string option

val tag : string -> string parser0

val pmap : 'a1 parser0 -> ('a1 -> 'a2) -> 'a2 parser0

val pnot : 'a1 parser0 -> unit parser0

val ppeek : 'a1 parser0 -> 'a1 parser0

val alt : 'a1 parser0 list -> 'a1 parser0

val pseq : 'a1 parser0 -> 'a2 parser0 -> ('a1 * 'a2) parser0

val preceded : 'a1 parser0 -> 'a2 parser0 -> 'a2 parser0

val in_set : ascii -> string -> bool

val none_of : string -> ascii parser0

val take1 : string parser0

val many1_rest : nat -> 'a1 parser0 -> string -> 'a1 list -> 'a1 list pres

val many1 : 'a1 parser0 -> ('a1 * 'a1 list) parser0

val string_of_chars : ascii list -> string

val ref_open : string parser0

val ref_close : string parser0

val inv_open : string parser0

val bs : string

val ref_escape_open : string parser0

val inv_escape_open : string parser0

val ref_escape_close : string parser0

val double_escape : string parser0

val ref_not_open : unit parser0

val ref_not_close : unit parser0

val specials : string

val ref_text : string parser0

val ref_content : string parser0

val ref_string : string parser0

val coalesce_rev : token list -> token list -> token list

val coalesce : (token * token list) -> token list

val mAX_REF_NESTING : nat

val reference : nat -> token parser0

val text : string parser0

val content : string parser0

val pstring : string parser0

val item : nat -> token parser0

val parse_ref_fuel : nat -> string -> token pres

val parse_ref : string -> token pres

type parsed =
| NoRef
| Parsed of token
| ParseError
| ParseFuel

val has_marker : string -> bool

val token_parse : string -> parsed

val mem : string -> string list -> bool

val remove_first : string -> string list -> string list

type ulist = string list

val u_append : ulist -> string -> ulist

val u_from : string list -> ulist

val u_merge : ulist -> ulist -> ulist

type rlist = { r_items : string list; r_negs : string list }

val r_empty : rlist

val r_handle_negation : rlist -> string -> rlist

val r_append : rlist -> string -> rlist

val r_from : string list -> rlist

val r_merge : rlist -> rlist -> rlist

type rstate = { seen : string list; depth : nat; keys : string list }

val st0 : rstate

val current_key : rstate -> string

val rESOLVE_MAX_DEPTH : nat

val append_last : string list -> string -> string list

val push_list_index : rstate -> nat -> rstate

val push_key : rstate -> string -> rstate

val push_mapping_key : rstate -> value -> rstate res

val with_depth : rstate -> nat -> rstate

val add_seen : rstate -> string -> rstate

type callback = value -> rstate -> (value * rstate) res

val seq_loop : callback -> rstate -> value list -> nat -> value list res

val vlist_loop : callback -> rstate -> value list -> value -> value res

val map_loop : callback -> rstate -> entry list -> mapping -> mapping res

val walk_loop :
  callback -> string -> string list -> value -> rstate -> string list ->
  (value * rstate) res

val slice_loop :
  (token -> rstate -> (value * rstate) res) -> callback -> callback -> rstate
  -> token list -> string res

val sov_loop : callback -> rstate -> value list -> value list res

val interp : nat -> mapping -> value -> rstate -> (value * rstate) res

val mapping_interp : nat -> mapping -> mapping -> rstate -> mapping res

val token_render : nat -> mapping -> token -> rstate -> (value * rstate) res

val token_resolve : nat -> mapping -> token -> rstate -> (value * rstate) res

val token_slice : nat -> mapping -> token list -> rstate -> string res

val interp_sov : nat -> mapping -> value -> rstate -> (value * rstate) res

val interp_while : nat -> mapping -> value -> rstate -> (value * rstate) res

val interp_while_str :
  nat -> mapping -> value -> rstate -> (value * rstate) res

val rendered : nat -> mapping -> value -> value res

val render_with_self : nat -> value -> value res

val hex_of_nibble : n -> ascii

val hex_of_ascii : ascii -> string

val hex : string -> string

val nibble_of_hex : ascii -> n option

val unhex : string -> string option

val words : string -> string list

val nat_of_string : string -> nat option

val fkind_of : string -> fkind option

val parse_float : string -> num option

val p_yaml_raw : nat -> string list -> (yaml * string list) option

val insert_by : ('a1 -> 'a1 -> bool) -> 'a1 -> 'a1 list -> 'a1 list

val sort_by : ('a1 -> 'a1 -> bool) -> 'a1 list -> 'a1 list

val yaml_text : yaml -> string

val norm_in_key : yaml -> yaml

val norm_yaml : yaml -> yaml

val p_yaml : nat -> string list -> (yaml * string list) option

val p_yamls : nat -> string list -> (yaml list * string list) option

val p_strs : nat -> string list -> (string list * string list) option

val sp : string -> string -> string

val canon_key : bool -> value -> string

val canon : bool -> value -> string

val site_name : site -> string

val hx : string -> string

val hxs : string list -> string

val canon_err : err -> string

val canon_res : ('a1 -> string) -> 'a1 res -> string

val canon_token : token -> string

val count_dots : string -> nat * string

val drop_last : nat -> string list -> string list

val abs_class_name : string list -> string -> string

val rindex_dot : string -> nat -> nat option -> nat option

val take_str : nat -> string -> string

val drop_str : nat -> string -> string

val split_ext : string -> string * string option

val is_yaml_ext : string option -> bool

val last_seg : string list -> string

val starts_with_underscore : string -> bool

type ekind =
| KNode
| KClass

type entity = { en_name : string; en_path : string list; en_loc : string list }

val entity_of : ekind -> bool -> string list -> entity option

val find_entity : string -> entity list -> entity option

val kind_name : ekind -> string

val discover_from :
  ekind -> bool -> string list list -> entity list -> entity list res

val discover : ekind -> bool -> string list list -> entity list res

type ncfg = { c_ignore : bool; c_matches : string list; c_compose : bool;
              c_literal_dots : bool }

type node = { n_apps : rlist; n_classes : ulist; n_params : mapping;
              n_loc : string list }

val empty_node : node

type cls_entry = { ce_name : string; ce_doc : yaml; ce_loc : string list }

val find_class : string -> cls_entry list -> cls_entry option

val y_field : string -> (yaml * yaml) list -> yaml option

val y_scalar_text : yaml -> string option

val y_strings : yaml list -> string list option

val y_string_list : string -> yaml option -> string list res

val node_of_yaml : string list -> yaml -> node res

val read_class :
  ncfg -> cls_entry list -> string list -> string -> node option res

val merge_into : node -> node -> (node * node) res

val include_name : nat -> mapping -> string -> string res

type walker =
  node -> string list -> string list -> node -> ((node * string list) * node)
  res

val include_loop :
  nat -> ncfg -> cls_entry list -> walker -> string list -> string list ->
  string list -> string list -> node -> (string list * node) res

val render_impl :
  nat -> nat -> ncfg -> cls_entry list -> node -> string list -> string list
  -> node -> ((node * string list) * node) res

type nmeta = { m_name : string; m_uri : string; m_parts : string list }

val as_reclass : ncfg -> nmeta -> mapping res

val render_params : nat -> node -> node res

val node_render :
  nat -> nat -> ncfg -> cls_entry list -> node -> nmeta -> node res

type node_entry = { ne_name : string; ne_path : string list; ne_doc : yaml }

val find_node : string -> node_entry list -> node_entry option

type nodeinfo = { ni_node : string; ni_name : string; ni_uri : string;
                  ni_env : string; ni_apps : string list;
                  ni_classes : string list; ni_params : mapping }

val strip_ext_path : string list -> string list

val render_node :
  nat -> nat -> ncfg -> string -> node_entry list -> cls_entry list -> string
  -> nodeinfo res

val insert_sorted : string -> string list -> string list

val sort_strings : string list -> string list

type index = (string * string list) list

val index_push : string -> string -> index -> index

val index_sort : index -> index

type inventory = { inv_apps : index; inv_classes : index;
                   inv_nodes : (string * nodeinfo) list }

val inv_step : inventory -> string -> nodeinfo -> inventory

val inventory_of : (string * nodeinfo res) list -> inventory -> inventory res

val empty_inventory : inventory

val sorted_insert :
  string -> string -> (string * string) list -> (string * string) list

val spec_key : value -> string option

val spec_num : num -> string

val spec_json : value -> string option

val text_of : value -> string option

type serr =
| SConst of value
| SConflict
| SPanic of site

type 'a sres =
| SOk of 'a
| SErr of serr
| SFuel

val sbind : 'a1 sres -> ('a1 -> 'a2 sres) -> 'a2 sres

type slot = { sl_key : value; sl_pending : yaml list; sl_const : bool }

type acc =
| ANull
| AScalar of value
| ASeq of yaml list
| AMaps of slot list

val key_of : yaml -> (value * prefix option) sres

val slot_write : value -> prefix option -> yaml -> slot list -> slot list sres

val collect : (yaml * yaml) list -> slot list -> slot list sres

val scalar_of : yaml -> value option

val combine : acc -> yaml -> acc sres

val combine_all : acc -> yaml list -> acc sres

val deep_merge : nat -> yaml list -> value sres

type comp =
| CRoot
| CCur
| CParent
| CNormal of string

val comp_eqb : comp -> comp -> bool

val is_abs : string -> bool

val components : string -> comp list

val ends_with_slash : string -> bool

val path_push : string -> string -> string

val cpop : comp list -> comp list

val comp_text : comp -> string

val print_comps : comp list -> string

val to_lexical_normal : string -> bool -> string

val comps_prefix : comp list -> comp list -> bool

val strip_trailing_slashes : nat -> string -> string

val last_is_normal : string -> bool

val drop_last_segment : ascii list -> ascii list

val parent_text : string -> string

val with_file_name : string -> string -> string

type config = { cf_inv : string; cf_nodes : string; cf_classes : string;
                cf_ignore : bool; cf_compose : bool;
                cf_reported : string list; cf_compiled : string list;
                cf_dots : bool }

val opt_default : string option -> string -> string

val config_new :
  string option -> string option -> string option -> bool option -> config res

val value_text : yaml -> string option

val is_flag_name : string -> bool

val upd_nodes : config -> string -> config

val upd_classes : config -> string -> config

val upd_ignore : config -> bool -> config

val upd_compose : config -> bool -> config

val upd_reported : config -> string list -> config

val upd_compiled : config -> string list -> config

val upd_dots : config -> bool -> config

val all_strings : yaml list -> string list option

val set_option : config -> string -> string -> yaml -> config res

val compile : (string -> bool) -> config -> config res

val set_options : config -> string -> (string * yaml) list -> config res

val load_from_file :
  (string -> bool) -> config -> string -> (string * yaml) list -> config res

val from_dict :
  (string -> bool) -> string -> (string * yaml) list -> config res

val set_regexp : (string -> bool) -> config -> string list -> config res

val is_class_ignored : (string -> string -> bool) -> config -> string -> bool

type cop =
| ONew of string option * string option * string option * bool option
| OLoad of string * (string * yaml) list
| ODict of string * (string * yaml) list
| OSetRegexp of string list
| OSetIgnore of bool
| OSetCompose of bool
| OSetFlag
| OUnsetFlag
| OClearFlags

val cfg_step : (string -> bool) -> config -> cop -> config * bool

type pyobj =
| PyNone
| PyBool of bool
| PyInt of z
| PyFloat of ftoken
| PyStr of string
| PyList of pyobj list
| PyDict of (pyobj * pyobj) list

val py_int_of : pyobj -> z option

val py_key_eqb : pyobj -> pyobj -> bool

val py_hashable : pyobj -> bool

val py_set_item :
  (pyobj * pyobj) list -> pyobj -> pyobj -> (pyobj * pyobj) list

type 'a pyres =
| PyOk of 'a
| PyTypeError
| PyPanic

val pybind : 'a1 pyres -> ('a1 -> 'a2 pyres) -> 'a2 pyres

val as_py_obj : value -> pyobj pyres

val run_fuel : nat

val merge_layers : yaml list -> mapping res

val run_merge : string list -> string

val run_value : string list -> string

val run_token : string list -> string

val p_lists : nat -> string list -> string list list option

val canon_strs : string list -> string

val run_list : string list -> string

val tab : string

val run_line : string -> string

val inc_fuel : nat

val p_bool : string -> bool option

val p_file : string list -> ((string list * yaml option) * string list) option

val p_files :
  nat -> string list -> ((string list * yaml option) list * string list)
  option

val p_count_files :
  string list -> ((string list * yaml option) list * string list) option

val doc_of :
  string list -> (string list * yaml option) list -> yaml option option

val dir_doc : yaml

val file_paths : (string list * yaml option) list -> string list list

val class_table : (string list * yaml option) list -> cls_entry list res

val node_table :
  bool -> (string list * yaml option) list -> node_entry list res

val canon_nodeinfo : nodeinfo -> string

val sort_index : index -> index

val canon_index : index -> string

val lookup_info : string -> (string * nodeinfo) list -> nodeinfo option

val canon_inventory : inventory -> string

val is_ok : 'a1 res -> bool

val canon_inv_result : (string * nodeinfo res) list -> string

val run_inv : string list -> string

val run_abs : string list -> string

val run_line2 : string -> string

val literalize : value -> value

val run_textof : string list -> string

val run_line3 : string -> string

val run_spec : string list -> string

val run_value2 : string list -> string

val run_line4 : string -> string

val p_opt_str : string -> string option option

val p_opt_bool : string -> bool option option

val p_entries :
  nat -> string list -> ((string * yaml) list * string list) option

val p_counted :
  (nat -> string list -> ('a1 * string list) option) -> string list ->
  ('a1 * string list) option

val p_ops : nat -> string list -> cop list option

val pair_up : string list -> (string * string) list

val tf : bool -> string

val canon_config :
  (string -> string -> bool) -> string list -> config -> string

val default_config : config

val run_config : string list -> string

val run_line5 : string -> string

val canon_py : pyobj -> string

val run_pynode : string list -> string

val is_pynode_line : string list -> bool

val run_line6 : string -> string

val run_value3 : string list -> string

val run_line7 : string -> string

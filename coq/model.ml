
(** val negb : bool -> bool **)

let negb = function
| true -> false
| false -> true

type nat =
| O
| S of nat

(** val option_map : ('a1 -> 'a2) -> 'a1 option -> 'a2 option **)

let option_map f = function
| Some a -> Some (f a)
| None -> None

(** val fst : ('a1 * 'a2) -> 'a1 **)

let fst = function
| (x, _) -> x

(** val snd : ('a1 * 'a2) -> 'a2 **)

let snd = function
| (_, y) -> y

(** val length : 'a1 list -> nat **)

let rec length = function
| [] -> O
| _ :: l' -> S (length l')

(** val app : 'a1 list -> 'a1 list -> 'a1 list **)

let rec app l m =
  match l with
  | [] -> m
  | a :: l1 -> a :: (app l1 m)

type comparison =
| Eq
| Lt
| Gt

type uint =
| Nil
| D0 of uint
| D1 of uint
| D2 of uint
| D3 of uint
| D4 of uint
| D5 of uint
| D6 of uint
| D7 of uint
| D8 of uint
| D9 of uint

type signed_int =
| Pos of uint
| Neg of uint

(** val revapp : uint -> uint -> uint **)

let rec revapp d d' =
  match d with
  | Nil -> d'
  | D0 d0 -> revapp d0 (D0 d')
  | D1 d0 -> revapp d0 (D1 d')
  | D2 d0 -> revapp d0 (D2 d')
  | D3 d0 -> revapp d0 (D3 d')
  | D4 d0 -> revapp d0 (D4 d')
  | D5 d0 -> revapp d0 (D5 d')
  | D6 d0 -> revapp d0 (D6 d')
  | D7 d0 -> revapp d0 (D7 d')
  | D8 d0 -> revapp d0 (D8 d')
  | D9 d0 -> revapp d0 (D9 d')

(** val rev : uint -> uint **)

let rev d =
  revapp d Nil

module Little =
 struct
  (** val double : uint -> uint **)

  let rec double = function
  | Nil -> Nil
  | D0 d0 -> D0 (double d0)
  | D1 d0 -> D2 (double d0)
  | D2 d0 -> D4 (double d0)
  | D3 d0 -> D6 (double d0)
  | D4 d0 -> D8 (double d0)
  | D5 d0 -> D0 (succ_double d0)
  | D6 d0 -> D2 (succ_double d0)
  | D7 d0 -> D4 (succ_double d0)
  | D8 d0 -> D6 (succ_double d0)
  | D9 d0 -> D8 (succ_double d0)

  (** val succ_double : uint -> uint **)

  and succ_double = function
  | Nil -> D1 Nil
  | D0 d0 -> D1 (double d0)
  | D1 d0 -> D3 (double d0)
  | D2 d0 -> D5 (double d0)
  | D3 d0 -> D7 (double d0)
  | D4 d0 -> D9 (double d0)
  | D5 d0 -> D1 (succ_double d0)
  | D6 d0 -> D3 (succ_double d0)
  | D7 d0 -> D5 (succ_double d0)
  | D8 d0 -> D7 (succ_double d0)
  | D9 d0 -> D9 (succ_double d0)
 end

module Coq__1 = struct
 (** val add : nat -> nat -> nat **)
 let rec add n0 m =
   match n0 with
   | O -> m
   | S p -> S (add p m)
end
include Coq__1

(** val sub : nat -> nat -> nat **)

let rec sub n0 m =
  match n0 with
  | O -> n0
  | S k -> (match m with
            | O -> n0
            | S l -> sub k l)

(** val bool_dec : bool -> bool -> bool **)

let bool_dec b1 b2 =
  if b1 then if b2 then true else false else if b2 then false else true

(** val eqb : bool -> bool -> bool **)

let eqb b1 b2 =
  if b1 then b2 else if b2 then false else true

module Nat =
 struct
  (** val eqb : nat -> nat -> bool **)

  let rec eqb n0 m =
    match n0 with
    | O -> (match m with
            | O -> true
            | S _ -> false)
    | S n' -> (match m with
               | O -> false
               | S m' -> eqb n' m')

  (** val leb : nat -> nat -> bool **)

  let rec leb n0 m =
    match n0 with
    | O -> true
    | S n' -> (match m with
               | O -> false
               | S m' -> leb n' m')

  (** val ltb : nat -> nat -> bool **)

  let ltb n0 m =
    leb (S n0) m
 end

(** val removelast : 'a1 list -> 'a1 list **)

let rec removelast = function
| [] -> []
| a :: l0 -> (match l0 with
              | [] -> []
              | _ :: _ -> a :: (removelast l0))

(** val rev0 : 'a1 list -> 'a1 list **)

let rec rev0 = function
| [] -> []
| x :: l' -> app (rev0 l') (x :: [])

(** val list_eq_dec : ('a1 -> 'a1 -> bool) -> 'a1 list -> 'a1 list -> bool **)

let rec list_eq_dec eq_dec l l' =
  match l with
  | [] -> (match l' with
           | [] -> true
           | _ :: _ -> false)
  | y :: l0 ->
    (match l' with
     | [] -> false
     | a :: l1 -> if eq_dec y a then list_eq_dec eq_dec l0 l1 else false)

(** val map : ('a1 -> 'a2) -> 'a1 list -> 'a2 list **)

let rec map f = function
| [] -> []
| a :: t -> (f a) :: (map f t)

(** val fold_left : ('a1 -> 'a2 -> 'a1) -> 'a2 list -> 'a1 -> 'a1 **)

let rec fold_left f l a0 =
  match l with
  | [] -> a0
  | b :: t -> fold_left f t (f a0 b)

(** val fold_right : ('a2 -> 'a1 -> 'a1) -> 'a1 -> 'a2 list -> 'a1 **)

let rec fold_right f a0 = function
| [] -> a0
| b :: t -> f b (fold_right f a0 t)

(** val existsb : ('a1 -> bool) -> 'a1 list -> bool **)

let rec existsb f = function
| [] -> false
| a :: l0 -> (||) (f a) (existsb f l0)

(** val forallb : ('a1 -> bool) -> 'a1 list -> bool **)

let rec forallb f = function
| [] -> true
| a :: l0 -> (&&) (f a) (forallb f l0)

(** val filter : ('a1 -> bool) -> 'a1 list -> 'a1 list **)

let rec filter f = function
| [] -> []
| x :: l0 -> if f x then x :: (filter f l0) else filter f l0

(** val firstn : nat -> 'a1 list -> 'a1 list **)

let rec firstn n0 l =
  match n0 with
  | O -> []
  | S n1 -> (match l with
             | [] -> []
             | a :: l0 -> a :: (firstn n1 l0))

type positive =
| XI of positive
| XO of positive
| XH

type n =
| N0
| Npos of positive

type z =
| Z0
| Zpos of positive
| Zneg of positive

module Pos =
 struct
  type mask =
  | IsNul
  | IsPos of positive
  | IsNeg
 end

module Coq_Pos =
 struct
  (** val succ : positive -> positive **)

  let rec succ = function
  | XI p -> XO (succ p)
  | XO p -> XI p
  | XH -> XO XH

  (** val add : positive -> positive -> positive **)

  let rec add x y =
    match x with
    | XI p ->
      (match y with
       | XI q -> XO (add_carry p q)
       | XO q -> XI (add p q)
       | XH -> XO (succ p))
    | XO p ->
      (match y with
       | XI q -> XI (add p q)
       | XO q -> XO (add p q)
       | XH -> XI p)
    | XH -> (match y with
             | XI q -> XO (succ q)
             | XO q -> XI q
             | XH -> XO XH)

  (** val add_carry : positive -> positive -> positive **)

  and add_carry x y =
    match x with
    | XI p ->
      (match y with
       | XI q -> XI (add_carry p q)
       | XO q -> XO (add_carry p q)
       | XH -> XI (succ p))
    | XO p ->
      (match y with
       | XI q -> XO (add_carry p q)
       | XO q -> XI (add p q)
       | XH -> XO (succ p))
    | XH ->
      (match y with
       | XI q -> XI (succ q)
       | XO q -> XO (succ q)
       | XH -> XI XH)

  (** val pred_double : positive -> positive **)

  let rec pred_double = function
  | XI p -> XI (XO p)
  | XO p -> XI (pred_double p)
  | XH -> XH

  type mask = Pos.mask =
  | IsNul
  | IsPos of positive
  | IsNeg

  (** val succ_double_mask : mask -> mask **)

  let succ_double_mask = function
  | IsNul -> IsPos XH
  | IsPos p -> IsPos (XI p)
  | IsNeg -> IsNeg

  (** val double_mask : mask -> mask **)

  let double_mask = function
  | IsPos p -> IsPos (XO p)
  | x0 -> x0

  (** val double_pred_mask : positive -> mask **)

  let double_pred_mask = function
  | XI p -> IsPos (XO (XO p))
  | XO p -> IsPos (XO (pred_double p))
  | XH -> IsNul

  (** val sub_mask : positive -> positive -> mask **)

  let rec sub_mask x y =
    match x with
    | XI p ->
      (match y with
       | XI q -> double_mask (sub_mask p q)
       | XO q -> succ_double_mask (sub_mask p q)
       | XH -> IsPos (XO p))
    | XO p ->
      (match y with
       | XI q -> succ_double_mask (sub_mask_carry p q)
       | XO q -> double_mask (sub_mask p q)
       | XH -> IsPos (pred_double p))
    | XH -> (match y with
             | XH -> IsNul
             | _ -> IsNeg)

  (** val sub_mask_carry : positive -> positive -> mask **)

  and sub_mask_carry x y =
    match x with
    | XI p ->
      (match y with
       | XI q -> succ_double_mask (sub_mask_carry p q)
       | XO q -> double_mask (sub_mask p q)
       | XH -> IsPos (pred_double p))
    | XO p ->
      (match y with
       | XI q -> double_mask (sub_mask_carry p q)
       | XO q -> succ_double_mask (sub_mask_carry p q)
       | XH -> double_pred_mask p)
    | XH -> IsNeg

  (** val mul : positive -> positive -> positive **)

  let rec mul x y =
    match x with
    | XI p -> add y (XO (mul p y))
    | XO p -> XO (mul p y)
    | XH -> y

  (** val compare_cont : comparison -> positive -> positive -> comparison **)

  let rec compare_cont r x y =
    match x with
    | XI p ->
      (match y with
       | XI q -> compare_cont r p q
       | XO q -> compare_cont Gt p q
       | XH -> Gt)
    | XO p ->
      (match y with
       | XI q -> compare_cont Lt p q
       | XO q -> compare_cont r p q
       | XH -> Gt)
    | XH -> (match y with
             | XH -> r
             | _ -> Lt)

  (** val compare : positive -> positive -> comparison **)

  let compare =
    compare_cont Eq

  (** val eqb : positive -> positive -> bool **)

  let rec eqb p q =
    match p with
    | XI p0 -> (match q with
                | XI q0 -> eqb p0 q0
                | _ -> false)
    | XO p0 -> (match q with
                | XO q0 -> eqb p0 q0
                | _ -> false)
    | XH -> (match q with
             | XH -> true
             | _ -> false)

  (** val iter_op : ('a1 -> 'a1 -> 'a1) -> positive -> 'a1 -> 'a1 **)

  let rec iter_op op p a =
    match p with
    | XI p0 -> op a (iter_op op p0 (op a a))
    | XO p0 -> iter_op op p0 (op a a)
    | XH -> a

  (** val to_nat : positive -> nat **)

  let to_nat x =
    iter_op Coq__1.add x (S O)

  (** val of_succ_nat : nat -> positive **)

  let rec of_succ_nat = function
  | O -> XH
  | S x -> succ (of_succ_nat x)

  (** val of_uint_acc : uint -> positive -> positive **)

  let rec of_uint_acc d acc0 =
    match d with
    | Nil -> acc0
    | D0 l -> of_uint_acc l (mul (XO (XI (XO XH))) acc0)
    | D1 l -> of_uint_acc l (add XH (mul (XO (XI (XO XH))) acc0))
    | D2 l -> of_uint_acc l (add (XO XH) (mul (XO (XI (XO XH))) acc0))
    | D3 l -> of_uint_acc l (add (XI XH) (mul (XO (XI (XO XH))) acc0))
    | D4 l -> of_uint_acc l (add (XO (XO XH)) (mul (XO (XI (XO XH))) acc0))
    | D5 l -> of_uint_acc l (add (XI (XO XH)) (mul (XO (XI (XO XH))) acc0))
    | D6 l -> of_uint_acc l (add (XO (XI XH)) (mul (XO (XI (XO XH))) acc0))
    | D7 l -> of_uint_acc l (add (XI (XI XH)) (mul (XO (XI (XO XH))) acc0))
    | D8 l ->
      of_uint_acc l (add (XO (XO (XO XH))) (mul (XO (XI (XO XH))) acc0))
    | D9 l ->
      of_uint_acc l (add (XI (XO (XO XH))) (mul (XO (XI (XO XH))) acc0))

  (** val of_uint : uint -> n **)

  let rec of_uint = function
  | Nil -> N0
  | D0 l -> of_uint l
  | D1 l -> Npos (of_uint_acc l XH)
  | D2 l -> Npos (of_uint_acc l (XO XH))
  | D3 l -> Npos (of_uint_acc l (XI XH))
  | D4 l -> Npos (of_uint_acc l (XO (XO XH)))
  | D5 l -> Npos (of_uint_acc l (XI (XO XH)))
  | D6 l -> Npos (of_uint_acc l (XO (XI XH)))
  | D7 l -> Npos (of_uint_acc l (XI (XI XH)))
  | D8 l -> Npos (of_uint_acc l (XO (XO (XO XH))))
  | D9 l -> Npos (of_uint_acc l (XI (XO (XO XH))))

  (** val to_little_uint : positive -> uint **)

  let rec to_little_uint = function
  | XI p0 -> Little.succ_double (to_little_uint p0)
  | XO p0 -> Little.double (to_little_uint p0)
  | XH -> D1 Nil

  (** val to_uint : positive -> uint **)

  let to_uint p =
    rev (to_little_uint p)
 end

module N =
 struct
  (** val succ_double : n -> n **)

  let succ_double = function
  | N0 -> Npos XH
  | Npos p -> Npos (XI p)

  (** val double : n -> n **)

  let double = function
  | N0 -> N0
  | Npos p -> Npos (XO p)

  (** val add : n -> n -> n **)

  let add n0 m =
    match n0 with
    | N0 -> m
    | Npos p -> (match m with
                 | N0 -> n0
                 | Npos q -> Npos (Coq_Pos.add p q))

  (** val sub : n -> n -> n **)

  let sub n0 m =
    match n0 with
    | N0 -> N0
    | Npos n' ->
      (match m with
       | N0 -> n0
       | Npos m' ->
         (match Coq_Pos.sub_mask n' m' with
          | Coq_Pos.IsPos p -> Npos p
          | _ -> N0))

  (** val mul : n -> n -> n **)

  let mul n0 m =
    match n0 with
    | N0 -> N0
    | Npos p -> (match m with
                 | N0 -> N0
                 | Npos q -> Npos (Coq_Pos.mul p q))

  (** val compare : n -> n -> comparison **)

  let compare n0 m =
    match n0 with
    | N0 -> (match m with
             | N0 -> Eq
             | Npos _ -> Lt)
    | Npos n' -> (match m with
                  | N0 -> Gt
                  | Npos m' -> Coq_Pos.compare n' m')

  (** val eqb : n -> n -> bool **)

  let eqb n0 m =
    match n0 with
    | N0 -> (match m with
             | N0 -> true
             | Npos _ -> false)
    | Npos p -> (match m with
                 | N0 -> false
                 | Npos q -> Coq_Pos.eqb p q)

  (** val leb : n -> n -> bool **)

  let leb x y =
    match compare x y with
    | Gt -> false
    | _ -> true

  (** val ltb : n -> n -> bool **)

  let ltb x y =
    match compare x y with
    | Lt -> true
    | _ -> false

  (** val pos_div_eucl : positive -> n -> n * n **)

  let rec pos_div_eucl a b =
    match a with
    | XI a' ->
      let (q, r) = pos_div_eucl a' b in
      let r' = succ_double r in
      if leb b r' then ((succ_double q), (sub r' b)) else ((double q), r')
    | XO a' ->
      let (q, r) = pos_div_eucl a' b in
      let r' = double r in
      if leb b r' then ((succ_double q), (sub r' b)) else ((double q), r')
    | XH ->
      (match b with
       | N0 -> (N0, (Npos XH))
       | Npos p -> (match p with
                    | XH -> ((Npos XH), N0)
                    | _ -> (N0, (Npos XH))))

  (** val div_eucl : n -> n -> n * n **)

  let div_eucl a b =
    match a with
    | N0 -> (N0, N0)
    | Npos na -> (match b with
                  | N0 -> (N0, a)
                  | Npos _ -> pos_div_eucl na b)

  (** val div : n -> n -> n **)

  let div a b =
    fst (div_eucl a b)

  (** val modulo : n -> n -> n **)

  let modulo a b =
    snd (div_eucl a b)
 end

module Z =
 struct
  (** val opp : z -> z **)

  let opp = function
  | Z0 -> Z0
  | Zpos x0 -> Zneg x0
  | Zneg x0 -> Zpos x0

  (** val eqb : z -> z -> bool **)

  let eqb x y =
    match x with
    | Z0 -> (match y with
             | Z0 -> true
             | _ -> false)
    | Zpos p -> (match y with
                 | Zpos q -> Coq_Pos.eqb p q
                 | _ -> false)
    | Zneg p -> (match y with
                 | Zneg q -> Coq_Pos.eqb p q
                 | _ -> false)

  (** val to_nat : z -> nat **)

  let to_nat = function
  | Zpos p -> Coq_Pos.to_nat p
  | _ -> O

  (** val of_nat : nat -> z **)

  let of_nat = function
  | O -> Z0
  | S n1 -> Zpos (Coq_Pos.of_succ_nat n1)

  (** val of_N : n -> z **)

  let of_N = function
  | N0 -> Z0
  | Npos p -> Zpos p

  (** val of_uint : uint -> z **)

  let of_uint d =
    of_N (Coq_Pos.of_uint d)

  (** val of_int : signed_int -> z **)

  let of_int = function
  | Pos d0 -> of_uint d0
  | Neg d0 -> opp (of_uint d0)

  (** val to_int : z -> signed_int **)

  let to_int = function
  | Z0 -> Pos (D0 Nil)
  | Zpos p -> Pos (Coq_Pos.to_uint p)
  | Zneg p -> Neg (Coq_Pos.to_uint p)
 end

type ascii =
| Ascii of bool * bool * bool * bool * bool * bool * bool * bool

(** val zero : ascii **)

let zero =
  Ascii (false, false, false, false, false, false, false, false)

(** val one : ascii **)

let one =
  Ascii (true, false, false, false, false, false, false, false)

(** val shift : bool -> ascii -> ascii **)

let shift c = function
| Ascii (a1, a2, a3, a4, a5, a6, a7, _) ->
  Ascii (c, a1, a2, a3, a4, a5, a6, a7)

(** val ascii_dec : ascii -> ascii -> bool **)

let ascii_dec a b =
  let Ascii (b0, b1, b2, b3, b4, b5, b6, b7) = a in
  let Ascii (b8, b9, b10, b11, b12, b13, b14, b15) = b in
  if bool_dec b0 b8
  then if bool_dec b1 b9
       then if bool_dec b2 b10
            then if bool_dec b3 b11
                 then if bool_dec b4 b12
                      then if bool_dec b5 b13
                           then if bool_dec b6 b14
                                then bool_dec b7 b15
                                else false
                           else false
                      else false
                 else false
            else false
       else false
  else false

(** val eqb0 : ascii -> ascii -> bool **)

let eqb0 a b =
  let Ascii (a0, a1, a2, a3, a4, a5, a6, a7) = a in
  let Ascii (b0, b1, b2, b3, b4, b5, b6, b7) = b in
  if if if if if if if eqb a0 b0 then eqb a1 b1 else false
                 then eqb a2 b2
                 else false
              then eqb a3 b3
              else false
           then eqb a4 b4
           else false
        then eqb a5 b5
        else false
     then eqb a6 b6
     else false
  then eqb a7 b7
  else false

(** val ascii_of_pos : positive -> ascii **)

let ascii_of_pos =
  let rec loop n0 p =
    match n0 with
    | O -> zero
    | S n' ->
      (match p with
       | XI p' -> shift true (loop n' p')
       | XO p' -> shift false (loop n' p')
       | XH -> one)
  in loop (S (S (S (S (S (S (S (S O))))))))

(** val ascii_of_N : n -> ascii **)

let ascii_of_N = function
| N0 -> zero
| Npos p -> ascii_of_pos p

(** val n_of_digits : bool list -> n **)

let rec n_of_digits = function
| [] -> N0
| b :: l' ->
  N.add (if b then Npos XH else N0) (N.mul (Npos (XO XH)) (n_of_digits l'))

(** val n_of_ascii : ascii -> n **)

let n_of_ascii = function
| Ascii (a0, a1, a2, a3, a4, a5, a6, a7) ->
  n_of_digits
    (a0 :: (a1 :: (a2 :: (a3 :: (a4 :: (a5 :: (a6 :: (a7 :: []))))))))

(** val compare0 : ascii -> ascii -> comparison **)

let compare0 a b =
  N.compare (n_of_ascii a) (n_of_ascii b)

type string =
| EmptyString
| String of ascii * string

(** val string_dec : string -> string -> bool **)

let rec string_dec s x =
  match s with
  | EmptyString -> (match x with
                    | EmptyString -> true
                    | String (_, _) -> false)
  | String (a, s0) ->
    (match x with
     | EmptyString -> false
     | String (a0, s1) -> if ascii_dec a a0 then string_dec s0 s1 else false)

(** val eqb1 : string -> string -> bool **)

let rec eqb1 s1 s2 =
  match s1 with
  | EmptyString ->
    (match s2 with
     | EmptyString -> true
     | String (_, _) -> false)
  | String (c1, s1') ->
    (match s2 with
     | EmptyString -> false
     | String (c2, s2') -> if eqb0 c1 c2 then eqb1 s1' s2' else false)

(** val compare1 : string -> string -> comparison **)

let rec compare1 s1 s2 =
  match s1 with
  | EmptyString -> (match s2 with
                    | EmptyString -> Eq
                    | String (_, _) -> Lt)
  | String (c1, s1') ->
    (match s2 with
     | EmptyString -> Gt
     | String (c2, s2') ->
       (match compare0 c1 c2 with
        | Eq -> compare1 s1' s2'
        | x -> x))

(** val ltb0 : string -> string -> bool **)

let ltb0 s1 s2 =
  match compare1 s1 s2 with
  | Lt -> true
  | _ -> false

(** val leb0 : string -> string -> bool **)

let leb0 s1 s2 =
  match compare1 s1 s2 with
  | Gt -> false
  | _ -> true

(** val append : string -> string -> string **)

let rec append s1 s2 =
  match s1 with
  | EmptyString -> s2
  | String (c, s1') -> String (c, (append s1' s2))

(** val length0 : string -> nat **)

let rec length0 = function
| EmptyString -> O
| String (_, s') -> S (length0 s')

(** val string_of_list_ascii : ascii list -> string **)

let rec string_of_list_ascii = function
| [] -> EmptyString
| ch :: s0 -> String (ch, (string_of_list_ascii s0))

(** val list_ascii_of_string : string -> ascii list **)

let rec list_ascii_of_string = function
| EmptyString -> []
| String (ch, s0) -> ch :: (list_ascii_of_string s0)

(** val uint_of_char : ascii -> uint option -> uint option **)

let uint_of_char a = function
| Some d0 ->
  let Ascii (b, b0, b1, b2, b3, b4, b5, b6) = a in
  if b
  then if b0
       then if b1
            then if b2
                 then None
                 else if b3
                      then if b4
                           then if b5
                                then None
                                else if b6 then None else Some (D7 d0)
                           else None
                      else None
            else if b2
                 then None
                 else if b3
                      then if b4
                           then if b5
                                then None
                                else if b6 then None else Some (D3 d0)
                           else None
                      else None
       else if b1
            then if b2
                 then None
                 else if b3
                      then if b4
                           then if b5
                                then None
                                else if b6 then None else Some (D5 d0)
                           else None
                      else None
            else if b2
                 then if b3
                      then if b4
                           then if b5
                                then None
                                else if b6 then None else Some (D9 d0)
                           else None
                      else None
                 else if b3
                      then if b4
                           then if b5
                                then None
                                else if b6 then None else Some (D1 d0)
                           else None
                      else None
  else if b0
       then if b1
            then if b2
                 then None
                 else if b3
                      then if b4
                           then if b5
                                then None
                                else if b6 then None else Some (D6 d0)
                           else None
                      else None
            else if b2
                 then None
                 else if b3
                      then if b4
                           then if b5
                                then None
                                else if b6 then None else Some (D2 d0)
                           else None
                      else None
       else if b1
            then if b2
                 then None
                 else if b3
                      then if b4
                           then if b5
                                then None
                                else if b6 then None else Some (D4 d0)
                           else None
                      else None
            else if b2
                 then if b3
                      then if b4
                           then if b5
                                then None
                                else if b6 then None else Some (D8 d0)
                           else None
                      else None
                 else if b3
                      then if b4
                           then if b5
                                then None
                                else if b6 then None else Some (D0 d0)
                           else None
                      else None
| None -> None

module NilEmpty =
 struct
  (** val string_of_uint : uint -> string **)

  let rec string_of_uint = function
  | Nil -> EmptyString
  | D0 d0 ->
    String ((Ascii (false, false, false, false, true, true, false, false)),
      (string_of_uint d0))
  | D1 d0 ->
    String ((Ascii (true, false, false, false, true, true, false, false)),
      (string_of_uint d0))
  | D2 d0 ->
    String ((Ascii (false, true, false, false, true, true, false, false)),
      (string_of_uint d0))
  | D3 d0 ->
    String ((Ascii (true, true, false, false, true, true, false, false)),
      (string_of_uint d0))
  | D4 d0 ->
    String ((Ascii (false, false, true, false, true, true, false, false)),
      (string_of_uint d0))
  | D5 d0 ->
    String ((Ascii (true, false, true, false, true, true, false, false)),
      (string_of_uint d0))
  | D6 d0 ->
    String ((Ascii (false, true, true, false, true, true, false, false)),
      (string_of_uint d0))
  | D7 d0 ->
    String ((Ascii (true, true, true, false, true, true, false, false)),
      (string_of_uint d0))
  | D8 d0 ->
    String ((Ascii (false, false, false, true, true, true, false, false)),
      (string_of_uint d0))
  | D9 d0 ->
    String ((Ascii (true, false, false, true, true, true, false, false)),
      (string_of_uint d0))

  (** val uint_of_string : string -> uint option **)

  let rec uint_of_string = function
  | EmptyString -> Some Nil
  | String (a, s0) -> uint_of_char a (uint_of_string s0)
 end

module NilZero =
 struct
  (** val string_of_uint : uint -> string **)

  let string_of_uint d = match d with
  | Nil ->
    String ((Ascii (false, false, false, false, true, true, false, false)),
      EmptyString)
  | _ -> NilEmpty.string_of_uint d

  (** val uint_of_string : string -> uint option **)

  let uint_of_string s = match s with
  | EmptyString -> None
  | String (_, _) -> NilEmpty.uint_of_string s

  (** val string_of_int : signed_int -> string **)

  let string_of_int = function
  | Pos d0 -> string_of_uint d0
  | Neg d0 ->
    String ((Ascii (true, false, true, true, false, true, false, false)),
      (string_of_uint d0))

  (** val int_of_string : string -> signed_int option **)

  let int_of_string s = match s with
  | EmptyString -> None
  | String (a, s') ->
    if eqb0 a (Ascii (true, false, true, true, false, true, false, false))
    then option_map (fun x -> Neg x) (uint_of_string s')
    else option_map (fun x -> Pos x) (uint_of_string s)
 end

type fkind =
| FFinite
| FNan
| FPosInf
| FNegInf

type ftoken = { fk : fkind; f_yaml : string; f_json : string }

type num =
| NInt of z
| NFloat of ftoken

(** val fkind_eqb : fkind -> fkind -> bool **)

let fkind_eqb a b =
  match a with
  | FFinite -> (match b with
                | FFinite -> true
                | _ -> false)
  | FNan -> (match b with
             | FNan -> true
             | _ -> false)
  | FPosInf -> (match b with
                | FPosInf -> true
                | _ -> false)
  | FNegInf -> (match b with
                | FNegInf -> true
                | _ -> false)

(** val ftoken_eqb : ftoken -> ftoken -> bool **)

let ftoken_eqb a b =
  (&&) ((&&) (fkind_eqb a.fk b.fk) (eqb1 a.f_yaml b.f_yaml))
    (eqb1 a.f_json b.f_json)

(** val num_eqb : num -> num -> bool **)

let num_eqb a b =
  match a with
  | NInt x -> (match b with
               | NInt y -> Z.eqb x y
               | NFloat _ -> false)
  | NFloat x -> (match b with
                 | NInt _ -> false
                 | NFloat y -> ftoken_eqb x y)

type value =
| VNull
| VBool of bool
| VStr of string
| VLit of string
| VNum of num
| VMap of (((value * value) * bool) * bool) list
| VSeq of value list
| VList of value list

type entry = ((value * value) * bool) * bool

type mapping = entry list

(** val mk_entry : value -> value -> bool -> bool -> entry **)

let mk_entry k v c o =
  (((k, v), c), o)

(** val e_key : entry -> value **)

let e_key e =
  fst (fst (fst e))

(** val e_val : entry -> value **)

let e_val e =
  snd (fst (fst e))

(** val e_const : entry -> bool **)

let e_const e =
  snd (fst e)

(** val e_over : entry -> bool **)

let e_over =
  snd

(** val value_eqb : value -> value -> bool **)

let rec value_eqb a b =
  match a with
  | VNull -> (match b with
              | VNull -> true
              | _ -> false)
  | VBool x -> (match b with
                | VBool y -> eqb x y
                | _ -> false)
  | VStr x -> (match b with
               | VStr y -> eqb1 x y
               | _ -> false)
  | VLit x -> (match b with
               | VLit y -> eqb1 x y
               | _ -> false)
  | VNum x -> (match b with
               | VNum y -> num_eqb x y
               | _ -> false)
  | VMap xs ->
    (match b with
     | VMap ys ->
       let rec go xs0 ys0 =
         match xs0 with
         | [] -> (match ys0 with
                  | [] -> true
                  | _ :: _ -> false)
         | e :: xs' ->
           let (p, o) = e in
           let (p0, c) = p in
           let (k, v) = p0 in
           (match ys0 with
            | [] -> false
            | e0 :: ys' ->
              let (p1, o') = e0 in
              let (p2, c') = p1 in
              let (k', v') = p2 in
              (&&)
                ((&&)
                  ((&&) ((&&) (value_eqb k k') (value_eqb v v')) (eqb c c'))
                  (eqb o o')) (go xs' ys'))
       in go xs ys
     | _ -> false)
  | VSeq xs ->
    (match b with
     | VSeq ys ->
       let rec go xs0 ys0 =
         match xs0 with
         | [] -> (match ys0 with
                  | [] -> true
                  | _ :: _ -> false)
         | x :: xs' ->
           (match ys0 with
            | [] -> false
            | y :: ys' -> (&&) (value_eqb x y) (go xs' ys'))
       in go xs ys
     | _ -> false)
  | VList xs ->
    (match b with
     | VList ys ->
       let rec go xs0 ys0 =
         match xs0 with
         | [] -> (match ys0 with
                  | [] -> true
                  | _ :: _ -> false)
         | x :: xs' ->
           (match ys0 with
            | [] -> false
            | y :: ys' -> (&&) (value_eqb x y) (go xs' ys'))
       in go xs ys
     | _ -> false)

(** val is_null : value -> bool **)

let is_null = function
| VNull -> true
| _ -> false

(** val is_string : value -> bool **)

let is_string = function
| VStr _ -> true
| _ -> false

(** val is_vlist : value -> bool **)

let is_vlist = function
| VList _ -> true
| _ -> false

(** val is_mapping : value -> bool **)

let is_mapping = function
| VMap _ -> true
| _ -> false

(** val is_sequence : value -> bool **)

let is_sequence = function
| VSeq _ -> true
| _ -> false

(** val variant : value -> string **)

let variant = function
| VNull ->
  String ((Ascii (false, true, true, false, true, false, true, false)),
    (String ((Ascii (true, false, false, false, false, true, true, false)),
    (String ((Ascii (false, false, true, true, false, true, true, false)),
    (String ((Ascii (true, false, true, false, true, true, true, false)),
    (String ((Ascii (true, false, true, false, false, true, true, false)),
    (String ((Ascii (false, true, false, true, true, true, false, false)),
    (String ((Ascii (false, true, false, true, true, true, false, false)),
    (String ((Ascii (false, true, true, true, false, false, true, false)),
    (String ((Ascii (true, false, true, false, true, true, true, false)),
    (String ((Ascii (false, false, true, true, false, true, true, false)),
    (String ((Ascii (false, false, true, true, false, true, true, false)),
    EmptyString)))))))))))))))))))))
| VBool _ ->
  String ((Ascii (false, true, true, false, true, false, true, false)),
    (String ((Ascii (true, false, false, false, false, true, true, false)),
    (String ((Ascii (false, false, true, true, false, true, true, false)),
    (String ((Ascii (true, false, true, false, true, true, true, false)),
    (String ((Ascii (true, false, true, false, false, true, true, false)),
    (String ((Ascii (false, true, false, true, true, true, false, false)),
    (String ((Ascii (false, true, false, true, true, true, false, false)),
    (String ((Ascii (false, true, false, false, false, false, true, false)),
    (String ((Ascii (true, true, true, true, false, true, true, false)),
    (String ((Ascii (true, true, true, true, false, true, true, false)),
    (String ((Ascii (false, false, true, true, false, true, true, false)),
    EmptyString)))))))))))))))))))))
| VStr _ ->
  String ((Ascii (false, true, true, false, true, false, true, false)),
    (String ((Ascii (true, false, false, false, false, true, true, false)),
    (String ((Ascii (false, false, true, true, false, true, true, false)),
    (String ((Ascii (true, false, true, false, true, true, true, false)),
    (String ((Ascii (true, false, true, false, false, true, true, false)),
    (String ((Ascii (false, true, false, true, true, true, false, false)),
    (String ((Ascii (false, true, false, true, true, true, false, false)),
    (String ((Ascii (true, true, false, false, true, false, true, false)),
    (String ((Ascii (false, false, true, false, true, true, true, false)),
    (String ((Ascii (false, true, false, false, true, true, true, false)),
    (String ((Ascii (true, false, false, true, false, true, true, false)),
    (String ((Ascii (false, true, true, true, false, true, true, false)),
    (String ((Ascii (true, true, true, false, false, true, true, false)),
    EmptyString)))))))))))))))))))))))))
| VLit _ ->
  String ((Ascii (false, true, true, false, true, false, true, false)),
    (String ((Ascii (true, false, false, false, false, true, true, false)),
    (String ((Ascii (false, false, true, true, false, true, true, false)),
    (String ((Ascii (true, false, true, false, true, true, true, false)),
    (String ((Ascii (true, false, true, false, false, true, true, false)),
    (String ((Ascii (false, true, false, true, true, true, false, false)),
    (String ((Ascii (false, true, false, true, true, true, false, false)),
    (String ((Ascii (false, false, true, true, false, false, true, false)),
    (String ((Ascii (true, false, false, true, false, true, true, false)),
    (String ((Ascii (false, false, true, false, true, true, true, false)),
    (String ((Ascii (true, false, true, false, false, true, true, false)),
    (String ((Ascii (false, true, false, false, true, true, true, false)),
    (String ((Ascii (true, false, false, false, false, true, true, false)),
    (String ((Ascii (false, false, true, true, false, true, true, false)),
    EmptyString)))))))))))))))))))))))))))
| VNum _ ->
  String ((Ascii (false, true, true, false, true, false, true, false)),
    (String ((Ascii (true, false, false, false, false, true, true, false)),
    (String ((Ascii (false, false, true, true, false, true, true, false)),
    (String ((Ascii (true, false, true, false, true, true, true, false)),
    (String ((Ascii (true, false, true, false, false, true, true, false)),
    (String ((Ascii (false, true, false, true, true, true, false, false)),
    (String ((Ascii (false, true, false, true, true, true, false, false)),
    (String ((Ascii (false, true, true, true, false, false, true, false)),
    (String ((Ascii (true, false, true, false, true, true, true, false)),
    (String ((Ascii (true, false, true, true, false, true, true, false)),
    (String ((Ascii (false, true, false, false, false, true, true, false)),
    (String ((Ascii (true, false, true, false, false, true, true, false)),
    (String ((Ascii (false, true, false, false, true, true, true, false)),
    EmptyString)))))))))))))))))))))))))
| VMap _ ->
  String ((Ascii (false, true, true, false, true, false, true, false)),
    (String ((Ascii (true, false, false, false, false, true, true, false)),
    (String ((Ascii (false, false, true, true, false, true, true, false)),
    (String ((Ascii (true, false, true, false, true, true, true, false)),
    (String ((Ascii (true, false, true, false, false, true, true, false)),
    (String ((Ascii (false, true, false, true, true, true, false, false)),
    (String ((Ascii (false, true, false, true, true, true, false, false)),
    (String ((Ascii (true, false, true, true, false, false, true, false)),
    (String ((Ascii (true, false, false, false, false, true, true, false)),
    (String ((Ascii (false, false, false, false, true, true, true, false)),
    (String ((Ascii (false, false, false, false, true, true, true, false)),
    (String ((Ascii (true, false, false, true, false, true, true, false)),
    (String ((Ascii (false, true, true, true, false, true, true, false)),
    (String ((Ascii (true, true, true, false, false, true, true, false)),
    EmptyString)))))))))))))))))))))))))))
| VSeq _ ->
  String ((Ascii (false, true, true, false, true, false, true, false)),
    (String ((Ascii (true, false, false, false, false, true, true, false)),
    (String ((Ascii (false, false, true, true, false, true, true, false)),
    (String ((Ascii (true, false, true, false, true, true, true, false)),
    (String ((Ascii (true, false, true, false, false, true, true, false)),
    (String ((Ascii (false, true, false, true, true, true, false, false)),
    (String ((Ascii (false, true, false, true, true, true, false, false)),
    (String ((Ascii (true, true, false, false, true, false, true, false)),
    (String ((Ascii (true, false, true, false, false, true, true, false)),
    (String ((Ascii (true, false, false, false, true, true, true, false)),
    (String ((Ascii (true, false, true, false, true, true, true, false)),
    (String ((Ascii (true, false, true, false, false, true, true, false)),
    (String ((Ascii (false, true, true, true, false, true, true, false)),
    (String ((Ascii (true, true, false, false, false, true, true, false)),
    (String ((Ascii (true, false, true, false, false, true, true, false)),
    EmptyString)))))))))))))))))))))))))))))
| VList _ ->
  String ((Ascii (false, true, true, false, true, false, true, false)),
    (String ((Ascii (true, false, false, false, false, true, true, false)),
    (String ((Ascii (false, false, true, true, false, true, true, false)),
    (String ((Ascii (true, false, true, false, true, true, true, false)),
    (String ((Ascii (true, false, true, false, false, true, true, false)),
    (String ((Ascii (false, true, false, true, true, true, false, false)),
    (String ((Ascii (false, true, false, true, true, true, false, false)),
    (String ((Ascii (false, true, true, false, true, false, true, false)),
    (String ((Ascii (true, false, false, false, false, true, true, false)),
    (String ((Ascii (false, false, true, true, false, true, true, false)),
    (String ((Ascii (true, false, true, false, true, true, true, false)),
    (String ((Ascii (true, false, true, false, false, true, true, false)),
    (String ((Ascii (false, false, true, true, false, false, true, false)),
    (String ((Ascii (true, false, false, true, false, true, true, false)),
    (String ((Ascii (true, true, false, false, true, true, true, false)),
    (String ((Ascii (false, false, true, false, true, true, true, false)),
    EmptyString)))))))))))))))))))))))))))))))

type prefix =
| PConst
| POver

(** val strip_prefix : value -> value * prefix option **)

let strip_prefix k = match k with
| VStr s ->
  (match s with
   | EmptyString -> (k, None)
   | String (c, rest) ->
     if eqb0 c (Ascii (true, false, true, true, true, true, false, false))
     then ((VStr rest), (Some PConst))
     else if eqb0 c (Ascii (false, true, true, true, true, true, true, false))
          then ((VStr rest), (Some POver))
          else (k, None))
| _ -> (k, None)

type site =
| PMergeString
| PMergeValueList
| PJsonValueList
| PJsonKey
| PJsonNumber
| PPushKey
| PResolveLookup
| PParseTrailing
| PCoalesceEmpty
| PYamlTagged
| PMappingFromUnwrap
| PPyValueList
| PMergeKeysUnwrap
| PStackOverflow

type err =
| EConst of value
| EMerge of string * string * string
| EFlattenString of string
| EParse of string
| ELoop of string list
| EDepth of string * string list
| EMissingKey of string * string * string
| ELookupSeq of string * string * string
| ELookupKind of string * string * string * string * string
| ERawString of string
| EKeyValueList
| EJsonKey of string
| EJsonValueList
| ETagged of string
| ERenderNonMapping of string
| EResolving of err
| EClassNotFound of string
| EIncludeLoop of string list * string
| EUnknownNode of string
| EClassPath of string
| EDeserialize of string * err
| EYamlShape of string
| EMetaParts
| EDuplicate of string * string * string * string
| ENodeFailed of string * err
| EConfig of string
| EOther of string

type 'a res =
| Ok of 'a
| Err of err
| Panic of site
| OutOfFuel

(** val bind : 'a1 res -> ('a1 -> 'a2 res) -> 'a2 res **)

let bind r f =
  match r with
  | Ok a -> f a
  | Err e -> Err e
  | Panic s -> Panic s
  | OutOfFuel -> OutOfFuel

(** val rmap : ('a1 -> 'a2) -> 'a1 res -> 'a2 res **)

let rmap f r =
  bind r (fun x -> Ok (f x))

(** val map_err : (err -> err) -> 'a1 res -> 'a1 res **)

let map_err f r = match r with
| Err e -> Err (f e)
| _ -> r

(** val foldM : ('a2 -> 'a1 -> 'a2 res) -> 'a1 list -> 'a2 -> 'a2 res **)

let rec foldM f l b =
  match l with
  | [] -> Ok b
  | x :: xs -> bind (f b x) (fun b' -> foldM f xs b')

(** val z_to_string : z -> string **)

let z_to_string z0 =
  NilZero.string_of_int (Z.to_int z0)

(** val nat_to_string : nat -> string **)

let nat_to_string n0 =
  z_to_string (Z.of_nat n0)

(** val z_of_string : string -> z option **)

let z_of_string s =
  option_map Z.of_int (NilZero.int_of_string s)

(** val concat_str : string list -> string **)

let rec concat_str = function
| [] -> EmptyString
| x :: xs -> append x (concat_str xs)

(** val join : string -> string list -> string **)

let rec join sep = function
| [] -> EmptyString
| x :: xs ->
  (match xs with
   | [] -> x
   | _ :: _ -> append x (append sep (join sep xs)))

(** val prefixb : string -> string -> bool **)

let rec prefixb p s =
  match p with
  | EmptyString -> true
  | String (a, p') ->
    (match s with
     | EmptyString -> false
     | String (b, s') -> (&&) (eqb0 a b) (prefixb p' s'))

(** val contains : string -> string -> bool **)

let rec contains s sub0 =
  (||) (prefixb sub0 s)
    (match s with
     | EmptyString -> false
     | String (_, s') -> contains s' sub0)

(** val split_on : ascii -> string -> string list **)

let rec split_on c = function
| EmptyString -> EmptyString :: []
| String (a, s') ->
  if eqb0 a c
  then EmptyString :: (split_on c s')
  else (match split_on c s' with
        | [] -> (String (a, EmptyString)) :: []
        | p :: ps -> (String (a, p)) :: ps)

(** val num_display : num -> string **)

let num_display = function
| NInt z0 -> z_to_string z0
| NFloat f -> f.f_yaml

(** val m_find : value -> mapping -> entry option **)

let rec m_find k = function
| [] -> None
| e :: m' -> if value_eqb (e_key e) k then Some e else m_find k m'

(** val m_get : value -> mapping -> value option **)

let m_get k m =
  option_map e_val (m_find k m)

(** val m_set : value -> (entry -> entry) -> mapping -> mapping **)

let rec m_set k f = function
| [] -> []
| e :: m' ->
  if value_eqb (e_key e) k then (f e) :: m' else e :: (m_set k f m')

(** val is_pconst : prefix option -> bool **)

let is_pconst = function
| Some p0 -> (match p0 with
              | PConst -> true
              | POver -> false)
| None -> false

(** val is_pover : prefix option -> bool **)

let is_pover = function
| Some p0 -> (match p0 with
              | PConst -> false
              | POver -> true)
| None -> false

(** val layers_of : value -> value list **)

let layers_of v = match v with
| VList l -> l
| _ -> v :: []

(** val insert_impl :
    mapping -> value -> value -> bool -> bool -> mapping res **)

let insert_impl m k v fc fo =
  let (k', p) = strip_prefix k in
  (match m_find k' m with
   | Some e ->
     if e_const e
     then Err (EConst k')
     else if (||) fo (is_pover p)
          then Ok
                 (m_set k' (fun e0 ->
                   mk_entry k' v ((||) fc (is_pconst p)) (e_over e0)) m)
          else let old = e_val e in
               let nl =
                 match old with
                 | VList l -> VList (app l (layers_of v))
                 | _ -> VList (old :: (layers_of v))
               in
               Ok
               (m_set k' (fun e0 ->
                 mk_entry k' nl ((||) fc (is_pconst p)) (e_over e0)) m)
   | None ->
     Ok
       (app m
         ((mk_entry k' v ((||) (is_pconst p) fc) ((||) (is_pover p) fo)) :: [])))

(** val m_insert : mapping -> value -> value -> mapping res **)

let m_insert m k v =
  insert_impl m k v false false

(** val mapping_merge : mapping -> mapping -> mapping res **)

let mapping_merge m other =
  foldM (fun acc0 e ->
    insert_impl acc0 (e_key e) (e_val e) (e_const e) (e_over e)) other m

(** val merge_core : string -> value -> value -> value res **)

let merge_core ck self other =
  match self with
  | VNull -> Ok other
  | VStr _ -> Panic PMergeString
  | VMap m ->
    (match other with
     | VMap o -> rmap (fun x -> VMap x) (mapping_merge m o)
     | _ ->
       Err (EMerge (ck, (variant other), (String ((Ascii (true, false, true,
         true, false, true, true, false)), (String ((Ascii (true, false,
         false, false, false, true, true, false)), (String ((Ascii (false,
         false, false, false, true, true, true, false)), (String ((Ascii
         (false, false, false, false, true, true, true, false)), (String
         ((Ascii (true, false, false, true, false, true, true, false)),
         (String ((Ascii (false, true, true, true, false, true, true,
         false)), (String ((Ascii (true, true, true, false, false, true,
         true, false)), EmptyString)))))))))))))))))
  | VSeq s ->
    (match other with
     | VSeq o -> Ok (VSeq (app s o))
     | _ ->
       Err (EMerge (ck, (variant other), (String ((Ascii (true, true, false,
         false, true, true, true, false)), (String ((Ascii (true, false,
         true, false, false, true, true, false)), (String ((Ascii (true,
         false, false, false, true, true, true, false)), (String ((Ascii
         (true, false, true, false, true, true, true, false)), (String
         ((Ascii (true, false, true, false, false, true, true, false)),
         (String ((Ascii (false, true, true, true, false, true, true,
         false)), (String ((Ascii (true, true, false, false, false, true,
         true, false)), (String ((Ascii (true, false, true, false, false,
         true, true, false)), EmptyString)))))))))))))))))))
  | VList _ -> Panic PMergeValueList
  | _ ->
    if (||) (is_mapping other) (is_sequence other)
    then Err (EMerge (ck, (variant other), (variant self)))
    else Ok other

(** val flattened : string -> value -> value res **)

let rec flattened ck v = match v with
| VStr _ -> Err (EFlattenString ck)
| VMap es ->
  rmap (fun x -> VMap x)
    (let rec go es0 acc0 =
       match es0 with
       | [] -> Ok acc0
       | e :: es' ->
         let (p, o) = e in
         let (p0, c) = p in
         let (k, v0) = p0 in
         bind (flattened ck v0) (fun fv ->
           bind (insert_impl acc0 k fv c o) (fun acc' -> go es' acc'))
     in go es [])
| VSeq s ->
  rmap (fun x -> VSeq x)
    (let rec go = function
     | [] -> Ok []
     | x :: xs ->
       bind (flattened ck x) (fun y -> bind (go xs) (fun ys -> Ok (y :: ys)))
     in go s)
| VList l ->
  let rec go l0 base =
    match l0 with
    | [] -> Ok base
    | x :: xs ->
      bind
        (if is_null x
         then Ok VNull
         else bind (match x with
                    | VList _ -> flattened ck x
                    | _ -> Ok x) (fun x' -> merge_core ck base x'))
        (fun b' -> go xs b')
  in go l VNull
| _ -> Ok v

(** val value_merge : string -> value -> value -> value res **)

let value_merge ck self other =
  if is_null other
  then Ok VNull
  else bind (if is_vlist other then flattened ck other else Ok other)
         (fun other' -> merge_core ck self other')

type yaml =
| YNull
| YBool of bool
| YNum of num
| YStr of string
| YSeq of yaml list
| YMap of (yaml * yaml) list
| YTagged of string * yaml

(** val value_of_yaml : yaml -> value res **)

let rec value_of_yaml = function
| YNull -> Ok VNull
| YBool b -> Ok (VBool b)
| YNum n0 -> Ok (VNum n0)
| YStr s -> Ok (VStr s)
| YSeq l ->
  rmap (fun x -> VSeq x)
    (let rec go = function
     | [] -> Ok []
     | x :: xs ->
       bind (value_of_yaml x) (fun v -> bind (go xs) (fun vs -> Ok (v :: vs)))
     in go l)
| YMap l ->
  rmap (fun x -> VMap x)
    (let rec go l0 acc0 =
       match l0 with
       | [] -> Ok acc0
       | p :: l' ->
         let (k, v) = p in
         bind (value_of_yaml k) (fun kv ->
           bind (value_of_yaml v) (fun vv ->
             match m_insert acc0 kv vv with
             | Ok acc' -> go l' acc'
             | Err _ -> Panic PMappingFromUnwrap
             | x -> x))
     in go l [])
| YTagged (_, _) -> Panic PYamlTagged

(** val mapping_of_yaml : yaml -> mapping res **)

let mapping_of_yaml y =
  bind (value_of_yaml y) (fun v ->
    match v with
    | VMap m -> Ok m
    | _ ->
      Err (EYamlShape (String ((Ascii (false, false, false, false, true,
        true, true, false)), (String ((Ascii (true, false, false, false,
        false, true, true, false)), (String ((Ascii (false, true, false,
        false, true, true, true, false)), (String ((Ascii (true, false,
        false, false, false, true, true, false)), (String ((Ascii (true,
        false, true, true, false, true, true, false)), (String ((Ascii (true,
        false, true, false, false, true, true, false)), (String ((Ascii
        (false, false, true, false, true, true, true, false)), (String
        ((Ascii (true, false, true, false, false, true, true, false)),
        (String ((Ascii (false, true, false, false, true, true, true,
        false)), (String ((Ascii (true, true, false, false, true, true, true,
        false)), EmptyString))))))))))))))))))))))

(** val try_value_of_yaml : yaml -> value res **)

let rec try_value_of_yaml = function
| YNull -> Ok VNull
| YBool b -> Ok (VBool b)
| YNum n0 -> Ok (VNum n0)
| YStr s -> Ok (VStr s)
| YSeq l ->
  rmap (fun x -> VSeq x)
    (let rec go = function
     | [] -> Ok []
     | x :: xs ->
       bind (try_value_of_yaml x) (fun v ->
         bind (go xs) (fun vs -> Ok (v :: vs)))
     in go l)
| YMap l ->
  rmap (fun x -> VMap x)
    (let rec go l0 acc0 =
       match l0 with
       | [] -> Ok acc0
       | p :: l' ->
         let (k, v) = p in
         bind (try_value_of_yaml k) (fun kv ->
           bind (try_value_of_yaml v) (fun vv ->
             bind (m_insert acc0 kv vv) (fun acc' -> go l' acc')))
     in go l [])
| YTagged (t, _) -> Err (ETagged t)

(** val try_mapping_of_yaml : yaml -> mapping res **)

let try_mapping_of_yaml y =
  bind (try_value_of_yaml y) (fun v ->
    match v with
    | VMap m -> Ok m
    | _ ->
      Err (EYamlShape (String ((Ascii (false, false, false, false, true,
        true, true, false)), (String ((Ascii (true, false, false, false,
        false, true, true, false)), (String ((Ascii (false, true, false,
        false, true, true, true, false)), (String ((Ascii (true, false,
        false, false, false, true, true, false)), (String ((Ascii (true,
        false, true, true, false, true, true, false)), (String ((Ascii (true,
        false, true, false, false, true, true, false)), (String ((Ascii
        (false, false, true, false, true, true, true, false)), (String
        ((Ascii (true, false, true, false, false, true, true, false)),
        (String ((Ascii (false, true, false, false, true, true, true,
        false)), (String ((Ascii (true, true, false, false, true, true, true,
        false)), EmptyString))))))))))))))))))))))

type jvalue =
| JNull
| JBool of bool
| JNum of string
| JStr of string
| JArr of jvalue list
| JObj of (string * jvalue) list

(** val bt_insert :
    string -> jvalue -> (string * jvalue) list -> (string * jvalue) list **)

let rec bt_insert k v l = match l with
| [] -> (k, v) :: []
| p :: l' ->
  let (k', v') = p in
  if eqb1 k k'
  then (k, v) :: l'
  else if ltb0 k k' then (k, v) :: l else (k', v') :: (bt_insert k v l')

(** val int_json_text : z -> string **)

let int_json_text =
  z_to_string

(** val num_to_json : num -> jvalue **)

let num_to_json = function
| NInt z0 -> JNum (int_json_text z0)
| NFloat f -> (match f.fk with
               | FFinite -> JNum f.f_json
               | _ -> JStr f.f_yaml)

(** val json_key : value -> string res **)

let json_key = function
| VNull ->
  Ok (String ((Ascii (false, true, true, true, false, true, true, false)),
    (String ((Ascii (true, false, true, false, true, true, true, false)),
    (String ((Ascii (false, false, true, true, false, true, true, false)),
    (String ((Ascii (false, false, true, true, false, true, true, false)),
    EmptyString))))))))
| VBool b ->
  if b
  then Ok (String ((Ascii (false, false, true, false, true, true, true,
         false)), (String ((Ascii (false, true, false, false, true, true,
         true, false)), (String ((Ascii (true, false, true, false, true,
         true, true, false)), (String ((Ascii (true, false, true, false,
         false, true, true, false)), EmptyString))))))))
  else Ok (String ((Ascii (false, true, true, false, false, true, true,
         false)), (String ((Ascii (true, false, false, false, false, true,
         true, false)), (String ((Ascii (false, false, true, true, false,
         true, true, false)), (String ((Ascii (true, true, false, false,
         true, true, true, false)), (String ((Ascii (true, false, true,
         false, false, true, true, false)), EmptyString))))))))))
| VStr s -> Ok s
| VLit s -> Ok s
| VNum n0 -> Ok (num_display n0)
| _ -> Panic PJsonKey

(** val to_json : value -> jvalue res **)

let rec to_json = function
| VNull -> Ok JNull
| VBool b -> Ok (JBool b)
| VStr s -> Ok (JStr s)
| VLit s -> Ok (JStr s)
| VNum n0 -> Ok (num_to_json n0)
| VMap es ->
  rmap (fun x -> JObj x)
    (let rec go es0 acc0 =
       match es0 with
       | [] -> Ok acc0
       | e :: es' ->
         let (p, _) = e in
         let (p0, _) = p in
         let (k, v0) = p0 in
         bind (json_key k) (fun ks ->
           bind (to_json v0) (fun jv -> go es' (bt_insert ks jv acc0)))
     in go es [])
| VSeq s ->
  rmap (fun x -> JArr x)
    (let rec go = function
     | [] -> Ok []
     | x :: xs ->
       bind (to_json x) (fun y -> bind (go xs) (fun ys -> Ok (y :: ys)))
     in go s)
| VList _ -> Panic PJsonValueList

(** val hex_digit : n -> ascii **)

let hex_digit = function
| N0 -> Ascii (false, false, false, false, true, true, false, false)
| Npos p ->
  (match p with
   | XI p0 ->
     (match p0 with
      | XI p1 ->
        (match p1 with
         | XI _ -> Ascii (false, true, true, false, false, true, true, false)
         | XO p2 ->
           (match p2 with
            | XH ->
              Ascii (false, true, false, false, false, true, true, false)
            | _ -> Ascii (false, true, true, false, false, true, true, false))
         | XH -> Ascii (true, true, true, false, true, true, false, false))
      | XO p1 ->
        (match p1 with
         | XI p2 ->
           (match p2 with
            | XH ->
              Ascii (false, false, true, false, false, true, true, false)
            | _ -> Ascii (false, true, true, false, false, true, true, false))
         | XO p2 ->
           (match p2 with
            | XH -> Ascii (true, false, false, true, true, true, false, false)
            | _ -> Ascii (false, true, true, false, false, true, true, false))
         | XH -> Ascii (true, false, true, false, true, true, false, false))
      | XH -> Ascii (true, true, false, false, true, true, false, false))
   | XO p0 ->
     (match p0 with
      | XI p1 ->
        (match p1 with
         | XI p2 ->
           (match p2 with
            | XH -> Ascii (true, false, true, false, false, true, true, false)
            | _ -> Ascii (false, true, true, false, false, true, true, false))
         | XO p2 ->
           (match p2 with
            | XH ->
              Ascii (true, false, false, false, false, true, true, false)
            | _ -> Ascii (false, true, true, false, false, true, true, false))
         | XH -> Ascii (false, true, true, false, true, true, false, false))
      | XO p1 ->
        (match p1 with
         | XI p2 ->
           (match p2 with
            | XH -> Ascii (true, true, false, false, false, true, true, false)
            | _ -> Ascii (false, true, true, false, false, true, true, false))
         | XO p2 ->
           (match p2 with
            | XH ->
              Ascii (false, false, false, true, true, true, false, false)
            | _ -> Ascii (false, true, true, false, false, true, true, false))
         | XH -> Ascii (false, false, true, false, true, true, false, false))
      | XH -> Ascii (false, true, false, false, true, true, false, false))
   | XH -> Ascii (true, false, false, false, true, true, false, false))

(** val json_escape_char : ascii -> string **)

let json_escape_char c =
  let n0 = n_of_ascii c in
  if N.eqb n0 (Npos (XO (XI (XO (XO (XO XH))))))
  then String ((Ascii (false, false, true, true, true, false, true, false)),
         (String ((Ascii (false, true, false, false, false, true, false,
         false)), EmptyString)))
  else if N.eqb n0 (Npos (XO (XO (XI (XI (XI (XO XH)))))))
       then String ((Ascii (false, false, true, true, true, false, true,
              false)), (String ((Ascii (false, false, true, true, true,
              false, true, false)), EmptyString)))
       else if N.eqb n0 (Npos (XO (XO (XO XH))))
            then String ((Ascii (false, false, true, true, true, false, true,
                   false)), (String ((Ascii (false, true, false, false,
                   false, true, true, false)), EmptyString)))
            else if N.eqb n0 (Npos (XO (XO (XI XH))))
                 then String ((Ascii (false, false, true, true, true, false,
                        true, false)), (String ((Ascii (false, true, true,
                        false, false, true, true, false)), EmptyString)))
                 else if N.eqb n0 (Npos (XO (XI (XO XH))))
                      then String ((Ascii (false, false, true, true, true,
                             false, true, false)), (String ((Ascii (false,
                             true, true, true, false, true, true, false)),
                             EmptyString)))
                      else if N.eqb n0 (Npos (XI (XO (XI XH))))
                           then String ((Ascii (false, false, true, true,
                                  true, false, true, false)), (String ((Ascii
                                  (false, true, false, false, true, true,
                                  true, false)), EmptyString)))
                           else if N.eqb n0 (Npos (XI (XO (XO XH))))
                                then String ((Ascii (false, false, true,
                                       true, true, false, true, false)),
                                       (String ((Ascii (false, false, true,
                                       false, true, true, true, false)),
                                       EmptyString)))
                                else if N.ltb n0 (Npos (XO (XO (XO (XO (XO
                                          XH))))))
                                     then String ((Ascii (false, false, true,
                                            true, true, false, true, false)),
                                            (String ((Ascii (true, false,
                                            true, false, true, true, true,
                                            false)), (String ((Ascii (false,
                                            false, false, false, true, true,
                                            false, false)), (String ((Ascii
                                            (false, false, false, false,
                                            true, true, false, false)),
                                            (String
                                            ((hex_digit
                                               (N.div n0 (Npos (XO (XO (XO
                                                 (XO XH))))))), (String
                                            ((hex_digit
                                               (N.modulo n0 (Npos (XO (XO (XO
                                                 (XO XH))))))),
                                            EmptyString)))))))))))
                                     else String (c, EmptyString)

(** val json_escape : string -> string **)

let rec json_escape = function
| EmptyString -> EmptyString
| String (c, s') -> append (json_escape_char c) (json_escape s')

(** val json_string : string -> string **)

let json_string s =
  append (String ((Ascii (false, true, false, false, false, true, false,
    false)), EmptyString))
    (append (json_escape s) (String ((Ascii (false, true, false, false,
      false, true, false, false)), EmptyString)))

(** val print_json : jvalue -> string **)

let rec print_json = function
| JNull ->
  String ((Ascii (false, true, true, true, false, true, true, false)),
    (String ((Ascii (true, false, true, false, true, true, true, false)),
    (String ((Ascii (false, false, true, true, false, true, true, false)),
    (String ((Ascii (false, false, true, true, false, true, true, false)),
    EmptyString)))))))
| JBool b ->
  if b
  then String ((Ascii (false, false, true, false, true, true, true, false)),
         (String ((Ascii (false, true, false, false, true, true, true,
         false)), (String ((Ascii (true, false, true, false, true, true,
         true, false)), (String ((Ascii (true, false, true, false, false,
         true, true, false)), EmptyString)))))))
  else String ((Ascii (false, true, true, false, false, true, true, false)),
         (String ((Ascii (true, false, false, false, false, true, true,
         false)), (String ((Ascii (false, false, true, true, false, true,
         true, false)), (String ((Ascii (true, true, false, false, true,
         true, true, false)), (String ((Ascii (true, false, true, false,
         false, true, true, false)), EmptyString)))))))))
| JNum t -> t
| JStr s -> json_string s
| JArr l ->
  append (String ((Ascii (true, true, false, true, true, false, true,
    false)), EmptyString))
    (append
      (let rec go = function
       | [] -> EmptyString
       | x :: xs ->
         (match xs with
          | [] -> print_json x
          | _ :: _ ->
            append (print_json x)
              (append (String ((Ascii (false, false, true, true, false, true,
                false, false)), EmptyString)) (go xs)))
       in go l) (String ((Ascii (true, false, true, true, true, false, true,
      false)), EmptyString)))
| JObj l ->
  append (String ((Ascii (true, true, false, true, true, true, true, false)),
    EmptyString))
    (append
      (let rec go = function
       | [] -> EmptyString
       | p :: xs ->
         let (k, x) = p in
         (match xs with
          | [] ->
            append (json_string k)
              (append (String ((Ascii (false, true, false, true, true, true,
                false, false)), EmptyString)) (print_json x))
          | _ :: _ ->
            append (json_string k)
              (append (String ((Ascii (false, true, false, true, true, true,
                false, false)), EmptyString))
                (append (print_json x)
                  (append (String ((Ascii (false, false, true, true, false,
                    true, false, false)), EmptyString)) (go xs)))))
       in go l) (String ((Ascii (true, false, true, true, true, true, true,
      false)), EmptyString)))

(** val check_json : value -> unit res **)

let rec check_json = function
| VMap es ->
  let rec go = function
  | [] -> Ok ()
  | e :: es' ->
    let (p, _) = e in
    let (p0, _) = p in
    let (k, x) = p0 in
    if (||) ((||) (is_mapping k) (is_sequence k)) (is_vlist k)
    then Err (EJsonKey (variant k))
    else bind (check_json x) (fun _ -> go es')
  in go es
| VSeq l ->
  let rec go = function
  | [] -> Ok ()
  | x :: xs -> bind (check_json x) (fun _ -> go xs)
  in go l
| VList _ -> Err EJsonValueList
| _ -> Ok ()

(** val raw_string : value -> string res **)

let raw_string v = match v with
| VNull ->
  Ok (String ((Ascii (false, true, true, true, false, false, true, false)),
    (String ((Ascii (true, true, true, true, false, true, true, false)),
    (String ((Ascii (false, true, true, true, false, true, true, false)),
    (String ((Ascii (true, false, true, false, false, true, true, false)),
    EmptyString))))))))
| VBool b ->
  if b
  then Ok (String ((Ascii (false, false, true, false, true, false, true,
         false)), (String ((Ascii (false, true, false, false, true, true,
         true, false)), (String ((Ascii (true, false, true, false, true,
         true, true, false)), (String ((Ascii (true, false, true, false,
         false, true, true, false)), EmptyString))))))))
  else Ok (String ((Ascii (false, true, true, false, false, false, true,
         false)), (String ((Ascii (true, false, false, false, false, true,
         true, false)), (String ((Ascii (false, false, true, true, false,
         true, true, false)), (String ((Ascii (true, true, false, false,
         true, true, true, false)), (String ((Ascii (true, false, true,
         false, false, true, true, false)), EmptyString))))))))))
| VStr _ -> Err (ERawString (variant v))
| VLit s -> Ok s
| VNum n0 -> Ok (num_display n0)
| VList _ -> Err (ERawString (variant v))
| _ ->
  bind (check_json v) (fun _ -> bind (to_json v) (fun j -> Ok (print_json j)))

type token =
| TLit of string
| TRef of token list
| TComb of token list

type 'a pres =
| PFail
| PFuel
| POk of string * 'a

type 'a parser0 = string -> 'a pres

(** val pbind : 'a1 pres -> (string -> 'a1 -> 'a2 pres) -> 'a2 pres **)

let pbind r f =
  match r with
  | PFail -> PFail
  | PFuel -> PFuel
  | POk (rest, a) -> f rest a

(** val strip : string -> string -> string option **)

let rec strip p s =
  match p with
  | EmptyString -> Some s
  | String (a, p') ->
    (match s with
     | EmptyString -> None
     | String (b, s') -> if eqb0 a b then strip p' s' else None)

(** val tag : string -> string parser0 **)

let tag t s =
  match strip t s with
  | Some r -> POk (r, t)
  | None -> PFail

(** val pmap : 'a1 parser0 -> ('a1 -> 'a2) -> 'a2 parser0 **)

let pmap p f s =
  pbind (p s) (fun r a -> POk (r, (f a)))

(** val pnot : 'a1 parser0 -> unit parser0 **)

let pnot p s =
  match p s with
  | PFail -> POk (s, ())
  | PFuel -> PFuel
  | POk (_, _) -> PFail

(** val ppeek : 'a1 parser0 -> 'a1 parser0 **)

let ppeek p s =
  match p s with
  | POk (_, a) -> POk (s, a)
  | x -> x

(** val alt : 'a1 parser0 list -> 'a1 parser0 **)

let rec alt ps s =
  match ps with
  | [] -> PFail
  | p :: ps' -> (match p s with
                 | PFail -> alt ps' s
                 | x -> x)

(** val pseq : 'a1 parser0 -> 'a2 parser0 -> ('a1 * 'a2) parser0 **)

let pseq p q s =
  pbind (p s) (fun r a -> pbind (q r) (fun r' b -> POk (r', (a, b))))

(** val preceded : 'a1 parser0 -> 'a2 parser0 -> 'a2 parser0 **)

let preceded p q =
  pmap (pseq p q) snd

(** val in_set : ascii -> string -> bool **)

let rec in_set c = function
| EmptyString -> false
| String (a, set') -> (||) (eqb0 a c) (in_set c set')

(** val none_of : string -> ascii parser0 **)

let none_of set = function
| EmptyString -> PFail
| String (c, s') -> if in_set c set then PFail else POk (s', c)

(** val take1 : string parser0 **)

let take1 = function
| EmptyString -> PFail
| String (c, s') -> POk (s', (String (c, EmptyString)))

(** val many1_rest :
    nat -> 'a1 parser0 -> string -> 'a1 list -> 'a1 list pres **)

let rec many1_rest n0 p s acc0 =
  match n0 with
  | O -> PFuel
  | S n' ->
    (match p s with
     | PFail -> POk (s, (rev0 acc0))
     | PFuel -> PFuel
     | POk (r, a) ->
       if Nat.eqb (length0 r) (length0 s)
       then PFail
       else many1_rest n' p r (a :: acc0))

(** val many1 : 'a1 parser0 -> ('a1 * 'a1 list) parser0 **)

let many1 p s =
  pbind (p s) (fun r a ->
    pbind (many1_rest (S (length0 r)) p r []) (fun r' l -> POk (r', (a, l))))

(** val string_of_chars : ascii list -> string **)

let rec string_of_chars = function
| [] -> EmptyString
| c :: l' -> String (c, (string_of_chars l'))

(** val ref_open : string parser0 **)

let ref_open =
  tag (String ((Ascii (false, false, true, false, false, true, false,
    false)), (String ((Ascii (true, true, false, true, true, true, true,
    false)), EmptyString))))

(** val ref_close : string parser0 **)

let ref_close =
  tag (String ((Ascii (true, false, true, true, true, true, true, false)),
    EmptyString))

(** val inv_open : string parser0 **)

let inv_open =
  tag (String ((Ascii (false, false, true, false, false, true, false,
    false)), (String ((Ascii (true, true, false, true, true, false, true,
    false)), EmptyString))))

(** val bs : string **)

let bs =
  String ((Ascii (false, false, true, true, true, false, true, false)),
    EmptyString)

(** val ref_escape_open : string parser0 **)

let ref_escape_open =
  preceded (tag bs) ref_open

(** val inv_escape_open : string parser0 **)

let inv_escape_open =
  preceded (tag bs) inv_open

(** val ref_escape_close : string parser0 **)

let ref_escape_close =
  preceded (tag bs) ref_close

(** val double_escape : string parser0 **)

let double_escape =
  pmap
    (pseq (tag (append bs bs)) (ppeek (alt (ref_open :: (ref_close :: [])))))
    (fun _ -> bs)

(** val ref_not_open : unit parser0 **)

let ref_not_open =
  pmap
    (pseq
      (pnot
        (tag (String ((Ascii (false, false, true, false, false, true, false,
          false)), (String ((Ascii (true, true, false, true, true, true,
          true, false)), EmptyString))))))
      (pseq
        (pnot
          (tag
            (append bs (String ((Ascii (false, false, true, false, false,
              true, false, false)), (String ((Ascii (true, true, false, true,
              true, true, true, false)), EmptyString)))))))
        (pseq
          (pnot
            (tag
              (append bs
                (append bs (String ((Ascii (false, false, true, false, false,
                  true, false, false)), (String ((Ascii (true, true, false,
                  true, true, true, true, false)), EmptyString))))))))
          (pnot
            (tag
              (append bs (String ((Ascii (false, false, true, false, false,
                true, false, false)), (String ((Ascii (true, true, false,
                true, true, false, true, false)), EmptyString))))))))))
    (fun _ -> ())

(** val ref_not_close : unit parser0 **)

let ref_not_close =
  pmap
    (pseq
      (pnot
        (tag (String ((Ascii (true, false, true, true, true, true, true,
          false)), EmptyString))))
      (pseq
        (pnot
          (tag
            (append bs (String ((Ascii (true, false, true, true, true, true,
              true, false)), EmptyString)))))
        (pnot
          (tag
            (append bs
              (append bs (String ((Ascii (true, false, true, true, true,
                true, true, false)), EmptyString)))))))) (fun _ -> ())

(** val specials : string **)

let specials =
  append bs (String ((Ascii (false, false, true, false, false, true, false,
    false)), (String ((Ascii (true, true, false, true, true, true, true,
    false)), (String ((Ascii (true, false, true, true, true, true, true,
    false)), EmptyString))))))

(** val ref_text : string parser0 **)

let ref_text =
  alt
    ((pmap (many1 (none_of specials)) (fun pat ->
       let (c, cs) = pat in string_of_chars (c :: cs))) :: ((pmap
                                                              (pseq
                                                                (pnot
                                                                  (tag
                                                                    (String
                                                                    ((Ascii
                                                                    (true,
                                                                    false,
                                                                    true,
                                                                    true,
                                                                    true,
                                                                    true,
                                                                    true,
                                                                    false)),
                                                                    EmptyString))))
                                                                take1) snd) :: []))

(** val ref_content : string parser0 **)

let ref_content =
  pmap (pseq ref_not_open (pseq ref_not_close ref_text)) (fun x ->
    snd (snd x))

(** val ref_string : string parser0 **)

let ref_string =
  pmap
    (many1
      (alt
        (double_escape :: (ref_escape_open :: (ref_escape_close :: (inv_escape_open :: (ref_content :: [])))))))
    (fun pat -> let (x, xs) = pat in concat_str (x :: xs))

(** val coalesce_rev : token list -> token list -> token list **)

let rec coalesce_rev acc0 = function
| [] -> rev0 acc0
| t :: ts' ->
  (match acc0 with
   | [] -> coalesce_rev (t :: acc0) ts'
   | t0 :: acc' ->
     (match t0 with
      | TLit a ->
        (match t with
         | TLit b -> coalesce_rev ((TLit (append a b)) :: acc') ts'
         | _ -> coalesce_rev (t :: acc0) ts')
      | _ -> coalesce_rev (t :: acc0) ts'))

(** val coalesce : (token * token list) -> token list **)

let coalesce ts =
  coalesce_rev ((fst ts) :: []) (snd ts)

(** val mAX_REF_NESTING : nat **)

let mAX_REF_NESTING =
  S (S (S (S (S (S (S (S (S (S (S (S (S (S (S (S (S (S (S (S (S (S (S (S (S
    (S (S (S (S (S (S (S (S (S (S (S (S (S (S (S (S (S (S (S (S (S (S (S (S
    (S (S (S (S (S (S (S (S (S (S (S (S (S (S (S (S (S (S (S (S (S (S (S (S
    (S (S (S (S (S (S (S (S (S (S (S (S (S (S (S (S (S (S (S (S (S (S (S (S
    (S (S (S (S (S (S (S (S (S (S (S (S (S (S (S (S (S (S (S (S (S (S (S (S
    (S (S (S (S (S (S (S
    O)))))))))))))))))))))))))))))))))))))))))))))))))))))))))))))))))))))))))))))))))))))))))))))))))))))))))))))))))))))))))))))))

(** val reference : nat -> token parser0 **)

let rec reference b x =
  match b with
  | O -> PFail
  | S b' ->
    pbind (ref_open x) (fun r1 _ ->
      pbind
        (many1
          (alt
            ((reference b') :: ((pmap ref_string (fun x0 -> TLit x0)) :: [])))
          r1) (fun r2 toks ->
        pbind (ref_close r2) (fun r3 _ -> POk (r3, (TRef (coalesce toks))))))

(** val text : string parser0 **)

let text =
  alt
    ((pmap (many1 (none_of specials)) (fun pat ->
       let (c, cs) = pat in string_of_chars (c :: cs))) :: (take1 :: []))

(** val content : string parser0 **)

let content =
  pmap (many1 (pseq ref_not_open text)) (fun pat ->
    let (x, xs) = pat in concat_str (map snd (x :: xs)))

(** val pstring : string parser0 **)

let pstring =
  alt
    (double_escape :: (ref_escape_open :: (inv_escape_open :: (content :: []))))

(** val item : nat -> token parser0 **)

let item f =
  alt ((reference f) :: ((pmap pstring (fun x -> TLit x)) :: []))

(** val parse_ref_fuel : nat -> string -> token pres **)

let parse_ref_fuel f s =
  match many1 (item f) s with
  | PFail -> PFail
  | PFuel -> PFuel
  | POk (rest, toks) ->
    (match rest with
     | EmptyString ->
       (match coalesce toks with
        | [] -> POk (EmptyString, (TComb []))
        | t :: l ->
          (match l with
           | [] -> POk (EmptyString, t)
           | t0 :: l0 -> POk (EmptyString, (TComb (t :: (t0 :: l0))))))
     | String (_, _) -> PFail)

(** val parse_ref : string -> token pres **)

let parse_ref s =
  parse_ref_fuel (S mAX_REF_NESTING) s

type parsed =
| NoRef
| Parsed of token
| ParseError
| ParseFuel

(** val has_marker : string -> bool **)

let has_marker s =
  (||)
    (contains s (String ((Ascii (false, false, true, false, false, true,
      false, false)), (String ((Ascii (true, true, false, true, true, true,
      true, false)), EmptyString)))))
    (contains s (String ((Ascii (false, false, true, false, false, true,
      false, false)), (String ((Ascii (true, true, false, true, true, false,
      true, false)), EmptyString)))))

(** val token_parse : string -> parsed **)

let token_parse s =
  if has_marker s
  then (match parse_ref s with
        | PFail -> ParseError
        | PFuel -> ParseFuel
        | POk (_, t) -> Parsed t)
  else NoRef

(** val mem : string -> string list -> bool **)

let rec mem x = function
| [] -> false
| y :: l' -> (||) (eqb1 y x) (mem x l')

(** val remove_first : string -> string list -> string list **)

let rec remove_first x = function
| [] -> []
| y :: l' -> if eqb1 y x then l' else y :: (remove_first x l')

type ulist = string list

(** val u_append : ulist -> string -> ulist **)

let u_append l x =
  if mem x l then l else app l (x :: [])

(** val u_from : string list -> ulist **)

let u_from xs =
  fold_left u_append xs []

(** val u_merge : ulist -> ulist -> ulist **)

let u_merge l other =
  fold_left u_append other l

type rlist = { r_items : string list; r_negs : string list }

(** val r_empty : rlist **)

let r_empty =
  { r_items = []; r_negs = [] }

(** val r_handle_negation : rlist -> string -> rlist **)

let r_handle_negation l n0 =
  if mem n0 l.r_items
  then { r_items = (remove_first n0 l.r_items); r_negs = l.r_negs }
  else if mem n0 l.r_negs
       then l
       else { r_items = l.r_items; r_negs = (app l.r_negs (n0 :: [])) }

(** val r_append : rlist -> string -> rlist **)

let r_append l item0 = match item0 with
| EmptyString ->
  if mem item0 l.r_negs
  then { r_items = l.r_items; r_negs = (remove_first item0 l.r_negs) }
  else if mem item0 l.r_items
       then l
       else { r_items = (app l.r_items (item0 :: [])); r_negs = l.r_negs }
| String (a, neg) ->
  let Ascii (b, b0, b1, b2, b3, b4, b5, b6) = a in
  if b
  then if mem item0 l.r_negs
       then { r_items = l.r_items; r_negs = (remove_first item0 l.r_negs) }
       else if mem item0 l.r_items
            then l
            else { r_items = (app l.r_items (item0 :: [])); r_negs =
                   l.r_negs }
  else if b0
       then if b1
            then if b2
                 then if b3
                      then if b4
                           then if b5
                                then if b6
                                     then if mem item0 l.r_negs
                                          then { r_items = l.r_items;
                                                 r_negs =
                                                 (remove_first item0 l.r_negs) }
                                          else if mem item0 l.r_items
                                               then l
                                               else { r_items =
                                                      (app l.r_items
                                                        (item0 :: []));
                                                      r_negs = l.r_negs }
                                     else r_handle_negation l neg
                                else if mem item0 l.r_negs
                                     then { r_items = l.r_items; r_negs =
                                            (remove_first item0 l.r_negs) }
                                     else if mem item0 l.r_items
                                          then l
                                          else { r_items =
                                                 (app l.r_items (item0 :: []));
                                                 r_negs = l.r_negs }
                           else if mem item0 l.r_negs
                                then { r_items = l.r_items; r_negs =
                                       (remove_first item0 l.r_negs) }
                                else if mem item0 l.r_items
                                     then l
                                     else { r_items =
                                            (app l.r_items (item0 :: []));
                                            r_negs = l.r_negs }
                      else if mem item0 l.r_negs
                           then { r_items = l.r_items; r_negs =
                                  (remove_first item0 l.r_negs) }
                           else if mem item0 l.r_items
                                then l
                                else { r_items =
                                       (app l.r_items (item0 :: []));
                                       r_negs = l.r_negs }
                 else if mem item0 l.r_negs
                      then { r_items = l.r_items; r_negs =
                             (remove_first item0 l.r_negs) }
                      else if mem item0 l.r_items
                           then l
                           else { r_items = (app l.r_items (item0 :: []));
                                  r_negs = l.r_negs }
            else if mem item0 l.r_negs
                 then { r_items = l.r_items; r_negs =
                        (remove_first item0 l.r_negs) }
                 else if mem item0 l.r_items
                      then l
                      else { r_items = (app l.r_items (item0 :: []));
                             r_negs = l.r_negs }
       else if mem item0 l.r_negs
            then { r_items = l.r_items; r_negs =
                   (remove_first item0 l.r_negs) }
            else if mem item0 l.r_items
                 then l
                 else { r_items = (app l.r_items (item0 :: [])); r_negs =
                        l.r_negs }

(** val r_from : string list -> rlist **)

let r_from xs =
  fold_left r_append xs r_empty

(** val r_merge : rlist -> rlist -> rlist **)

let r_merge l other =
  fold_left r_append other.r_items
    (fold_left r_handle_negation other.r_negs l)

type rstate = { seen : string list; depth : nat; keys : string list }

(** val st0 : rstate **)

let st0 =
  { seen = []; depth = O; keys = [] }

(** val current_key : rstate -> string **)

let current_key st =
  join (String ((Ascii (false, true, true, true, false, true, false, false)),
    EmptyString)) st.keys

(** val rESOLVE_MAX_DEPTH : nat **)

let rESOLVE_MAX_DEPTH =
  S (S (S (S (S (S (S (S (S (S (S (S (S (S (S (S (S (S (S (S (S (S (S (S (S
    (S (S (S (S (S (S (S (S (S (S (S (S (S (S (S (S (S (S (S (S (S (S (S (S
    (S (S (S (S (S (S (S (S (S (S (S (S (S (S (S
    O)))))))))))))))))))))))))))))))))))))))))))))))))))))))))))))))

(** val append_last : string list -> string -> string list **)

let rec append_last l suffix =
  match l with
  | [] -> suffix :: []
  | x :: l' ->
    (match l' with
     | [] -> (append x suffix) :: []
     | _ :: _ -> x :: (append_last l' suffix))

(** val push_list_index : rstate -> nat -> rstate **)

let push_list_index st idx =
  { seen = st.seen; depth = st.depth; keys =
    (append_last st.keys
      (append (String ((Ascii (true, true, false, true, true, false, true,
        false)), EmptyString))
        (append (nat_to_string idx) (String ((Ascii (true, false, true, true,
          true, false, true, false)), EmptyString))))) }

(** val push_key : rstate -> string -> rstate **)

let push_key st s =
  { seen = st.seen; depth = st.depth; keys = (app st.keys (s :: [])) }

(** val push_mapping_key : rstate -> value -> rstate res **)

let push_mapping_key st key =
  match raw_string key with
  | Ok s -> Ok (push_key st s)
  | Err e ->
    (match key with
     | VStr s -> Ok (push_key st s)
     | VMap _ -> Err e
     | VSeq _ -> Err e
     | VList _ -> Err EKeyValueList
     | _ -> Panic PPushKey)
  | Panic p -> Panic p
  | OutOfFuel -> OutOfFuel

(** val with_depth : rstate -> nat -> rstate **)

let with_depth st d =
  { seen = st.seen; depth = d; keys = st.keys }

(** val add_seen : rstate -> string -> rstate **)

let add_seen st p =
  { seen = (p :: st.seen); depth = st.depth; keys = st.keys }

type callback = value -> rstate -> (value * rstate) res

(** val seq_loop :
    callback -> rstate -> value list -> nat -> value list res **)

let rec seq_loop call st s idx =
  match s with
  | [] -> Ok []
  | it :: s' ->
    bind (call it (push_list_index st idx)) (fun pat ->
      let (e, _) = pat in
      bind (seq_loop call st s' (S idx)) (fun es -> Ok (e :: es)))

(** val vlist_loop :
    callback -> rstate -> value list -> value -> value res **)

let rec vlist_loop call st l r =
  match l with
  | [] -> Ok r
  | x :: l' ->
    bind (call x st) (fun pat ->
      let (iv, st1) = pat in
      bind (value_merge (current_key st1) r iv) (fun r' ->
        vlist_loop call st l' r'))

(** val map_loop :
    callback -> rstate -> entry list -> mapping -> mapping res **)

let rec map_loop call st es acc0 =
  match es with
  | [] -> Ok acc0
  | e :: es' ->
    let (p, o) = e in
    let (p0, c) = p in
    let (k, v) = p0 in
    bind (push_mapping_key st k) (fun st1 ->
      bind (call v st1) (fun pat ->
        let (v', st2) = pat in
        bind (flattened (current_key st2) v') (fun fv ->
          bind (insert_impl acc0 k fv c o) (fun acc' ->
            map_loop call st es' acc'))))

(** val walk_loop :
    callback -> string -> string list -> value -> rstate -> string list ->
    (value * rstate) res **)

let rec walk_loop sov path segs v st trav =
  match segs with
  | [] -> Ok (v, st)
  | key :: segs' ->
    bind (sov v st) (fun pat ->
      let (newv, st') = pat in
      (match newv with
       | VStr _ -> Panic PResolveLookup
       | VMap m ->
         (match m_get (VStr key) m with
          | Some v' -> walk_loop sov path segs' v' st' (app trav (key :: []))
          | None -> Err (EMissingKey (path, key, (current_key st'))))
       | VSeq _ -> Err (ELookupSeq (path, key, (current_key st')))
       | VList _ -> Panic PResolveLookup
       | _ ->
         Err (ELookupKind (path, key, (current_key st'),
           (join (String ((Ascii (false, true, false, true, true, true,
             false, false)), EmptyString)) trav), (variant newv)))))

(** val slice_loop :
    (token -> rstate -> (value * rstate) res) -> callback -> callback ->
    rstate -> token list -> string res **)

let rec slice_loop resolve while_str call st = function
| [] -> Ok EmptyString
| t :: ts' ->
  bind (resolve t st) (fun pat ->
    let (v, st1) = pat in
    bind (while_str v st1) (fun pat0 ->
      let (v', st2) = pat0 in
      bind
        (if (||) (is_mapping v') (is_sequence v')
         then call v' st2
         else Ok (v', st2)) (fun pat1 ->
        let (v'', _) = pat1 in
        bind (raw_string v'') (fun s ->
          bind (slice_loop resolve while_str call st ts') (fun rest -> Ok
            (append s rest))))))

(** val sov_loop : callback -> rstate -> value list -> value list res **)

let rec sov_loop call st = function
| [] -> Ok []
| x :: l' ->
  bind
    (if is_string x
     then bind (call x st) (fun pat -> let (y, _) = pat in Ok y)
     else Ok x) (fun x' -> bind (sov_loop call st l') (fun r -> Ok (x' :: r)))

(** val interp : nat -> mapping -> value -> rstate -> (value * rstate) res **)

let rec interp f root v st =
  match f with
  | O -> OutOfFuel
  | S f' ->
    (match v with
     | VStr s ->
       (match token_parse s with
        | NoRef -> Ok ((VLit s), st)
        | Parsed t -> token_render f' root t st
        | ParseError -> Err (EParse s)
        | ParseFuel -> OutOfFuel)
     | VMap m ->
       bind (mapping_interp f' root m st) (fun m' -> Ok ((VMap m'), st))
     | VSeq s ->
       bind (seq_loop (interp f' root) st s O) (fun l -> Ok ((VSeq l), st))
     | VList l ->
       bind (vlist_loop (interp f' root) st l VNull) (fun r ->
         interp f' root r st)
     | _ -> Ok (v, st))

(** val mapping_interp :
    nat -> mapping -> mapping -> rstate -> mapping res **)

and mapping_interp f root m st =
  match f with
  | O -> OutOfFuel
  | S f' -> map_loop (interp f' root) st m []

(** val token_render :
    nat -> mapping -> token -> rstate -> (value * rstate) res **)

and token_render f root t st =
  match f with
  | O -> OutOfFuel
  | S f' ->
    (match t with
     | TLit _ ->
       bind (token_resolve f' root t st) (fun pat ->
         let (v, st1) = pat in
         bind (raw_string v) (fun s -> Ok ((VLit s), st1)))
     | TRef _ ->
       bind (token_resolve f' root t st) (fun pat ->
         let (v, st1) = pat in interp f' root v st1)
     | TComb _ ->
       bind (token_resolve f' root t st) (fun pat ->
         let (v, st1) = pat in
         bind (raw_string v) (fun s -> Ok ((VLit s), st1))))

(** val token_resolve :
    nat -> mapping -> token -> rstate -> (value * rstate) res **)

and token_resolve f root t st =
  match f with
  | O -> OutOfFuel
  | S f' ->
    (match t with
     | TLit s -> Ok ((VLit s), st)
     | TRef parts ->
       let st1 = with_depth st (S st.depth) in
       if Nat.ltb rESOLVE_MAX_DEPTH st1.depth
       then Err (EDepth ((current_key st1), st1.seen))
       else bind (token_slice f' root parts st1) (fun path ->
              if mem path st1.seen
              then Err (ELoop st1.seen)
              else let st2 = add_seen st1 path in
                   (match split_on (Ascii (false, true, false, true, true,
                            true, false, false)) path with
                    | [] ->
                      Err (EOther (String ((Ascii (true, true, false, false,
                        true, true, true, false)), (String ((Ascii (false,
                        false, false, false, true, true, true, false)),
                        (String ((Ascii (false, false, true, true, false,
                        true, true, false)), (String ((Ascii (true, false,
                        false, true, false, true, true, false)), (String
                        ((Ascii (false, false, true, false, true, true, true,
                        false)), EmptyString)))))))))))
                    | k0 :: segs ->
                      (match m_get (VStr k0) root with
                       | Some v0 ->
                         bind
                           (walk_loop (interp_sov f' root) path segs v0 st2
                             (k0 :: [])) (fun pat ->
                           let (v, st3) = pat in interp_while f' root v st3)
                       | None ->
                         Err (EMissingKey (path, k0, (current_key st2))))))
     | TComb ts ->
       bind (token_slice f' root ts st) (fun s -> Ok ((VLit s), st)))

(** val token_slice : nat -> mapping -> token list -> rstate -> string res **)

and token_slice f root ts st =
  match f with
  | O -> OutOfFuel
  | S f' ->
    slice_loop (token_resolve f' root) (interp_while_str f' root)
      (interp f' root) st ts

(** val interp_sov :
    nat -> mapping -> value -> rstate -> (value * rstate) res **)

and interp_sov f root v st =
  match f with
  | O -> OutOfFuel
  | S f' ->
    (match v with
     | VStr _ -> interp f' root v st
     | VList l ->
       bind (sov_loop (interp f' root) st l) (fun i ->
         bind (flattened (current_key st) (VList i)) (fun r -> Ok (r, st)))
     | _ -> Ok (v, st))

(** val interp_while :
    nat -> mapping -> value -> rstate -> (value * rstate) res **)

and interp_while f root v st =
  match f with
  | O -> OutOfFuel
  | S f' ->
    if (||) (is_string v) (is_vlist v)
    then bind (interp f' root v st) (fun pat ->
           let (v', st') = pat in interp_while f' root v' st')
    else Ok (v, st)

(** val interp_while_str :
    nat -> mapping -> value -> rstate -> (value * rstate) res **)

and interp_while_str f root v st =
  match f with
  | O -> OutOfFuel
  | S f' ->
    if is_string v
    then bind (interp f' root v st) (fun pat ->
           let (v', st') = pat in interp_while_str f' root v' st')
    else Ok (v, st)

(** val rendered : nat -> mapping -> value -> value res **)

let rendered f root v =
  bind (map_err (fun x -> EResolving x) (interp f root v st0)) (fun pat ->
    let (v', st) = pat in flattened (current_key st) v')

(** val render_with_self : nat -> value -> value res **)

let render_with_self f v = match v with
| VMap m -> rendered f m v
| _ -> Err (ERenderNonMapping (variant v))

(** val hex_of_nibble : n -> ascii **)

let hex_of_nibble =
  hex_digit

(** val hex_of_ascii : ascii -> string **)

let hex_of_ascii c =
  let n0 = n_of_ascii c in
  String ((hex_of_nibble (N.div n0 (Npos (XO (XO (XO (XO XH))))))), (String
  ((hex_of_nibble (N.modulo n0 (Npos (XO (XO (XO (XO XH))))))), EmptyString)))

(** val hex : string -> string **)

let rec hex = function
| EmptyString -> EmptyString
| String (c, s') -> append (hex_of_ascii c) (hex s')

(** val nibble_of_hex : ascii -> n option **)

let nibble_of_hex c =
  let n0 = n_of_ascii c in
  if (&&) (N.leb (Npos (XO (XO (XO (XO (XI XH)))))) n0)
       (N.leb n0 (Npos (XI (XO (XO (XI (XI XH)))))))
  then Some (N.sub n0 (Npos (XO (XO (XO (XO (XI XH)))))))
  else if (&&) (N.leb (Npos (XI (XO (XO (XO (XO (XI XH))))))) n0)
            (N.leb n0 (Npos (XO (XI (XI (XO (XO (XI XH))))))))
       then Some (N.sub n0 (Npos (XI (XI (XI (XO (XI (XO XH))))))))
       else None

(** val unhex : string -> string option **)

let rec unhex = function
| EmptyString -> Some EmptyString
| String (a, s0) ->
  (match s0 with
   | EmptyString -> None
   | String (b, s') ->
     (match nibble_of_hex a with
      | Some x ->
        (match nibble_of_hex b with
         | Some y ->
           (match unhex s' with
            | Some r ->
              Some (String
                ((ascii_of_N
                   (N.add (N.mul (Npos (XO (XO (XO (XO XH))))) x) y)), r))
            | None -> None)
         | None -> None)
      | None -> None))

(** val words : string -> string list **)

let words s =
  filter (fun w -> negb (eqb1 w EmptyString))
    (split_on (Ascii (false, false, false, false, false, true, false, false))
      s)

(** val nat_of_string : string -> nat option **)

let nat_of_string s =
  option_map Z.to_nat (z_of_string s)

(** val fkind_of : string -> fkind option **)

let fkind_of s =
  if eqb1 s (String ((Ascii (false, true, true, false, false, true, true,
       false)), EmptyString))
  then Some FFinite
  else if eqb1 s (String ((Ascii (false, true, true, true, false, true, true,
            false)), EmptyString))
       then Some FNan
       else if eqb1 s (String ((Ascii (false, false, false, false, true,
                 true, true, false)), EmptyString))
            then Some FPosInf
            else if eqb1 s (String ((Ascii (true, false, true, true, false,
                      true, true, false)), EmptyString))
                 then Some FNegInf
                 else None

(** val parse_float : string -> num option **)

let parse_float body =
  match split_on (Ascii (false, true, false, true, true, true, false, false))
          body with
  | [] -> None
  | k :: l ->
    (match l with
     | [] -> None
     | hy :: l0 ->
       (match l0 with
        | [] -> None
        | hj :: l1 ->
          (match l1 with
           | [] ->
             (match fkind_of k with
              | Some k0 ->
                (match unhex hy with
                 | Some y ->
                   (match unhex hj with
                    | Some j ->
                      Some (NFloat { fk = k0; f_yaml = y; f_json = j })
                    | None -> None)
                 | None -> None)
              | None -> None)
           | _ :: _ -> None)))

(** val p_yaml_raw : nat -> string list -> (yaml * string list) option **)

let rec p_yaml_raw f ts =
  match f with
  | O -> None
  | S f' ->
    (match ts with
     | [] -> None
     | s :: ts' ->
       (match s with
        | EmptyString -> None
        | String (c, body) ->
          if eqb0 c (Ascii (false, true, true, true, false, false, true,
               false))
          then Some (YNull, ts')
          else if eqb0 c (Ascii (false, false, true, false, true, false,
                    true, false))
               then Some ((YBool true), ts')
               else if eqb0 c (Ascii (false, true, true, false, false, false,
                         true, false))
                    then Some ((YBool false), ts')
                    else if eqb0 c (Ascii (true, false, false, true, false,
                              false, true, false))
                         then option_map (fun z0 -> ((YNum (NInt z0)), ts'))
                                (z_of_string body)
                         else if eqb0 c (Ascii (false, false, true, false,
                                   false, false, true, false))
                              then option_map (fun n0 -> ((YNum n0), ts'))
                                     (parse_float body)
                              else if eqb0 c (Ascii (true, true, false,
                                        false, true, false, true, false))
                                   then option_map (fun s0 -> ((YStr s0),
                                          ts')) (unhex body)
                                   else if eqb0 c (Ascii (false, false, true,
                                             true, false, false, true, false))
                                        then (match nat_of_string body with
                                              | Some n0 ->
                                                let rec go n1 ts0 acc0 =
                                                  match n1 with
                                                  | O ->
                                                    Some ((YSeq (rev0 acc0)),
                                                      ts0)
                                                  | S n' ->
                                                    (match p_yaml_raw f' ts0 with
                                                     | Some p ->
                                                       let (y, ts1) = p in
                                                       go n' ts1 (y :: acc0)
                                                     | None -> None)
                                                in go n0 ts' []
                                              | None -> None)
                                        else if eqb0 c (Ascii (true, false,
                                                  true, true, false, false,
                                                  true, false))
                                             then (match nat_of_string body with
                                                   | Some n0 ->
                                                     let rec go n1 ts0 acc0 =
                                                       match n1 with
                                                       | O ->
                                                         Some ((YMap
                                                           (rev0 acc0)), ts0)
                                                       | S n' ->
                                                         (match p_yaml_raw f'
                                                                  ts0 with
                                                          | Some p ->
                                                            let (k, ts1) = p
                                                            in
                                                            (match p_yaml_raw
                                                                    f' ts1 with
                                                             | Some p0 ->
                                                               let (v, ts2) =
                                                                 p0
                                                               in
                                                               go n' ts2 ((k,
                                                                 v) :: acc0)
                                                             | None -> None)
                                                          | None -> None)
                                                     in go n0 ts' []
                                                   | None -> None)
                                             else if eqb0 c (Ascii (true,
                                                       true, true, false,
                                                       false, false, true,
                                                       false))
                                                  then (match unhex body with
                                                        | Some tg ->
                                                          (match p_yaml_raw
                                                                   f' ts' with
                                                           | Some p ->
                                                             let (y, ts1) = p
                                                             in
                                                             Some ((YTagged
                                                             (tg, y)), ts1)
                                                           | None -> None)
                                                        | None -> None)
                                                  else None))

(** val insert_by : ('a1 -> 'a1 -> bool) -> 'a1 -> 'a1 list -> 'a1 list **)

let rec insert_by leb1 x l = match l with
| [] -> x :: []
| y :: l' -> if leb1 x y then x :: l else y :: (insert_by leb1 x l')

(** val sort_by : ('a1 -> 'a1 -> bool) -> 'a1 list -> 'a1 list **)

let sort_by leb1 l =
  fold_right (insert_by leb1) [] l

(** val yaml_text : yaml -> string **)

let rec yaml_text = function
| YNull ->
  String ((Ascii (false, true, true, true, false, false, true, false)),
    EmptyString)
| YBool b ->
  if b
  then String ((Ascii (false, false, true, false, true, false, true, false)),
         EmptyString)
  else String ((Ascii (false, true, true, false, false, false, true, false)),
         EmptyString)
| YNum n0 ->
  (match n0 with
   | NInt z0 ->
     append (String ((Ascii (true, false, false, true, false, false, true,
       false)), EmptyString)) (z_to_string z0)
   | NFloat f ->
     append (String ((Ascii (false, false, true, false, false, false, true,
       false)), EmptyString)) (hex f.f_yaml))
| YStr s ->
  append (String ((Ascii (true, true, false, false, true, false, true,
    false)), EmptyString)) (hex s)
| YSeq l ->
  append
    (append (String ((Ascii (false, false, true, true, false, false, true,
      false)), EmptyString)) (nat_to_string (length l)))
    (let rec go = function
     | [] -> EmptyString
     | x :: xs ->
       append (String ((Ascii (false, false, false, false, false, true,
         false, false)), EmptyString)) (append (yaml_text x) (go xs))
     in go l)
| YMap l ->
  append
    (append (String ((Ascii (true, false, true, true, false, false, true,
      false)), EmptyString)) (nat_to_string (length l)))
    (let rec go = function
     | [] -> EmptyString
     | p :: xs ->
       let (k, v) = p in
       append (String ((Ascii (false, false, false, false, false, true,
         false, false)), EmptyString))
         (append (yaml_text k)
           (append (String ((Ascii (false, false, false, false, false, true,
             false, false)), EmptyString)) (append (yaml_text v) (go xs))))
     in go l)
| YTagged (t, y') ->
  append (String ((Ascii (true, true, true, false, false, false, true,
    false)), EmptyString))
    (append (hex t)
      (append (String ((Ascii (false, false, false, false, false, true,
        false, false)), EmptyString)) (yaml_text y')))

(** val norm_in_key : yaml -> yaml **)

let rec norm_in_key y = match y with
| YSeq l ->
  YSeq
    (let rec go = function
     | [] -> []
     | x :: r -> (norm_in_key x) :: (go r)
     in go l)
| YMap l ->
  YMap
    (sort_by (fun a b -> leb0 (yaml_text (fst a)) (yaml_text (fst b)))
      (let rec go = function
       | [] -> []
       | p :: r ->
         let (k, v) = p in ((norm_in_key k), (norm_in_key v)) :: (go r)
       in go l))
| YTagged (t, y') -> YTagged (t, (norm_in_key y'))
| _ -> y

(** val norm_yaml : yaml -> yaml **)

let rec norm_yaml y = match y with
| YSeq l ->
  YSeq
    (let rec go = function
     | [] -> []
     | x :: r -> (norm_yaml x) :: (go r)
     in go l)
| YMap l ->
  YMap
    (let rec go = function
     | [] -> []
     | p :: r -> let (k, v) = p in ((norm_in_key k), (norm_yaml v)) :: (go r)
     in go l)
| YTagged (t, y') -> YTagged (t, (norm_yaml y'))
| _ -> y

(** val p_yaml : nat -> string list -> (yaml * string list) option **)

let p_yaml f ts =
  match p_yaml_raw f ts with
  | Some p -> let (y, r) = p in Some ((norm_yaml y), r)
  | None -> None

(** val p_yamls : nat -> string list -> (yaml list * string list) option **)

let rec p_yamls n0 ts =
  match n0 with
  | O -> Some ([], ts)
  | S n' ->
    (match p_yaml (S (length ts)) ts with
     | Some p ->
       let (y, ts1) = p in
       (match p_yamls n' ts1 with
        | Some p0 -> let (ys, ts2) = p0 in Some ((y :: ys), ts2)
        | None -> None)
     | None -> None)

(** val p_strs : nat -> string list -> (string list * string list) option **)

let rec p_strs n0 ts =
  match n0 with
  | O -> Some ([], ts)
  | S n' ->
    (match ts with
     | [] -> None
     | s :: ts1 ->
       (match s with
        | EmptyString -> None
        | String (a, h) ->
          let Ascii (b, b0, b1, b2, b3, b4, b5, b6) = a in
          if b
          then if b0
               then if b1
                    then None
                    else if b2
                         then None
                         else if b3
                              then if b4
                                   then None
                                   else if b5
                                        then if b6
                                             then None
                                             else (match unhex h with
                                                   | Some s0 ->
                                                     (match p_strs n' ts1 with
                                                      | Some p ->
                                                        let (ss, ts2) = p in
                                                        Some ((s0 :: ss), ts2)
                                                      | None -> None)
                                                   | None -> None)
                                        else None
                              else None
               else None
          else None))

(** val sp : string -> string -> string **)

let sp a b =
  append a
    (append (String ((Ascii (false, false, false, false, false, true, false,
      false)), EmptyString)) b)

(** val canon_key : bool -> value -> string **)

let rec canon_key flags = function
| VNull ->
  String ((Ascii (false, true, true, true, false, false, true, false)),
    EmptyString)
| VBool b ->
  if b
  then String ((Ascii (false, false, true, false, true, false, true, false)),
         EmptyString)
  else String ((Ascii (false, true, true, false, false, false, true, false)),
         EmptyString)
| VStr s ->
  append (String ((Ascii (true, true, false, false, true, false, true,
    false)), EmptyString)) (hex s)
| VLit s ->
  append (String ((Ascii (true, false, false, false, true, false, true,
    false)), EmptyString)) (hex s)
| VNum n0 ->
  (match n0 with
   | NInt z0 ->
     append (String ((Ascii (true, false, false, true, false, false, true,
       false)), EmptyString)) (z_to_string z0)
   | NFloat f ->
     append (String ((Ascii (false, false, true, false, false, false, true,
       false)), EmptyString)) (hex f.f_yaml))
| VMap es ->
  append
    (append (String ((Ascii (true, false, true, true, false, false, true,
      false)), EmptyString)) (nat_to_string (length es)))
    (concat_str
      (sort_by leb0
        (let rec go = function
         | [] -> []
         | e :: es' ->
           let (p, o) = e in
           let (p0, c) = p in
           let (k, x) = p0 in
           (append (String ((Ascii (false, false, false, false, false, true,
             false, false)), EmptyString))
             (append (canon_key flags k)
               (append (String ((Ascii (false, false, false, false, false,
                 true, false, false)), EmptyString))
                 (append (canon_key flags x)
                   (if flags
                    then append
                           (if c
                            then String ((Ascii (false, false, false, false,
                                   false, true, false, false)), (String
                                   ((Ascii (true, true, false, false, false,
                                   true, true, false)), EmptyString)))
                            else String ((Ascii (false, false, false, false,
                                   false, true, false, false)), (String
                                   ((Ascii (true, false, true, true, false,
                                   true, false, false)), EmptyString))))
                           (if o
                            then String ((Ascii (true, true, true, true,
                                   false, true, true, false)), EmptyString)
                            else String ((Ascii (true, false, true, true,
                                   false, true, false, false)), EmptyString))
                    else EmptyString))))) :: (go es')
         in go es)))
| VSeq l ->
  append
    (append (String ((Ascii (false, false, true, true, false, false, true,
      false)), EmptyString)) (nat_to_string (length l)))
    (let rec go = function
     | [] -> EmptyString
     | x :: xs ->
       append (String ((Ascii (false, false, false, false, false, true,
         false, false)), EmptyString)) (append (canon_key flags x) (go xs))
     in go l)
| VList l ->
  append
    (append (String ((Ascii (false, true, true, false, true, false, true,
      false)), EmptyString)) (nat_to_string (length l)))
    (let rec go = function
     | [] -> EmptyString
     | x :: xs ->
       append (String ((Ascii (false, false, false, false, false, true,
         false, false)), EmptyString)) (append (canon_key flags x) (go xs))
     in go l)

(** val canon : bool -> value -> string **)

let rec canon flags = function
| VNull ->
  String ((Ascii (false, true, true, true, false, false, true, false)),
    EmptyString)
| VBool b ->
  if b
  then String ((Ascii (false, false, true, false, true, false, true, false)),
         EmptyString)
  else String ((Ascii (false, true, true, false, false, false, true, false)),
         EmptyString)
| VStr s ->
  append (String ((Ascii (true, true, false, false, true, false, true,
    false)), EmptyString)) (hex s)
| VLit s ->
  append (String ((Ascii (true, false, false, false, true, false, true,
    false)), EmptyString)) (hex s)
| VNum n0 ->
  (match n0 with
   | NInt z0 ->
     append (String ((Ascii (true, false, false, true, false, false, true,
       false)), EmptyString)) (z_to_string z0)
   | NFloat f ->
     append (String ((Ascii (false, false, true, false, false, false, true,
       false)), EmptyString)) (hex f.f_yaml))
| VMap es ->
  append
    (append (String ((Ascii (true, false, true, true, false, false, true,
      false)), EmptyString)) (nat_to_string (length es)))
    (let rec go = function
     | [] -> EmptyString
     | e :: es' ->
       let (p, o) = e in
       let (p0, c) = p in
       let (k, x) = p0 in
       append (String ((Ascii (false, false, false, false, false, true,
         false, false)), EmptyString))
         (append (canon_key flags k)
           (append (String ((Ascii (false, false, false, false, false, true,
             false, false)), EmptyString))
             (append (canon flags x)
               (append
                 (if flags
                  then append
                         (if c
                          then String ((Ascii (false, false, false, false,
                                 false, true, false, false)), (String ((Ascii
                                 (true, true, false, false, false, true,
                                 true, false)), EmptyString)))
                          else String ((Ascii (false, false, false, false,
                                 false, true, false, false)), (String ((Ascii
                                 (true, false, true, true, false, true,
                                 false, false)), EmptyString))))
                         (if o
                          then String ((Ascii (true, true, true, true, false,
                                 true, true, false)), EmptyString)
                          else String ((Ascii (true, false, true, true,
                                 false, true, false, false)), EmptyString))
                  else EmptyString) (go es')))))
     in go es)
| VSeq l ->
  append
    (append (String ((Ascii (false, false, true, true, false, false, true,
      false)), EmptyString)) (nat_to_string (length l)))
    (let rec go = function
     | [] -> EmptyString
     | x :: xs ->
       append (String ((Ascii (false, false, false, false, false, true,
         false, false)), EmptyString)) (append (canon flags x) (go xs))
     in go l)
| VList l ->
  append
    (append (String ((Ascii (false, true, true, false, true, false, true,
      false)), EmptyString)) (nat_to_string (length l)))
    (let rec go = function
     | [] -> EmptyString
     | x :: xs ->
       append (String ((Ascii (false, false, false, false, false, true,
         false, false)), EmptyString)) (append (canon flags x) (go xs))
     in go l)

(** val site_name : site -> string **)

let site_name = function
| PMergeString ->
  String ((Ascii (true, false, true, true, false, false, true, false)),
    (String ((Ascii (true, false, true, false, false, true, true, false)),
    (String ((Ascii (false, true, false, false, true, true, true, false)),
    (String ((Ascii (true, true, true, false, false, true, true, false)),
    (String ((Ascii (true, false, true, false, false, true, true, false)),
    (String ((Ascii (true, true, false, false, true, false, true, false)),
    (String ((Ascii (false, false, true, false, true, true, true, false)),
    (String ((Ascii (false, true, false, false, true, true, true, false)),
    (String ((Ascii (true, false, false, true, false, true, true, false)),
    (String ((Ascii (false, true, true, true, false, true, true, false)),
    (String ((Ascii (true, true, true, false, false, true, true, false)),
    EmptyString)))))))))))))))))))))
| PMergeValueList ->
  String ((Ascii (true, false, true, true, false, false, true, false)),
    (String ((Ascii (true, false, true, false, false, true, true, false)),
    (String ((Ascii (false, true, false, false, true, true, true, false)),
    (String ((Ascii (true, true, true, false, false, true, true, false)),
    (String ((Ascii (true, false, true, false, false, true, true, false)),
    (String ((Ascii (false, true, true, false, true, false, true, false)),
    (String ((Ascii (true, false, false, false, false, true, true, false)),
    (String ((Ascii (false, false, true, true, false, true, true, false)),
    (String ((Ascii (true, false, true, false, true, true, true, false)),
    (String ((Ascii (true, false, true, false, false, true, true, false)),
    (String ((Ascii (false, false, true, true, false, false, true, false)),
    (String ((Ascii (true, false, false, true, false, true, true, false)),
    (String ((Ascii (true, true, false, false, true, true, true, false)),
    (String ((Ascii (false, false, true, false, true, true, true, false)),
    EmptyString)))))))))))))))))))))))))))
| PJsonValueList ->
  String ((Ascii (false, true, false, true, false, false, true, false)),
    (String ((Ascii (true, true, false, false, true, true, true, false)),
    (String ((Ascii (true, true, true, true, false, true, true, false)),
    (String ((Ascii (false, true, true, true, false, true, true, false)),
    (String ((Ascii (false, true, true, false, true, false, true, false)),
    (String ((Ascii (true, false, false, false, false, true, true, false)),
    (String ((Ascii (false, false, true, true, false, true, true, false)),
    (String ((Ascii (true, false, true, false, true, true, true, false)),
    (String ((Ascii (true, false, true, false, false, true, true, false)),
    (String ((Ascii (false, false, true, true, false, false, true, false)),
    (String ((Ascii (true, false, false, true, false, true, true, false)),
    (String ((Ascii (true, true, false, false, true, true, true, false)),
    (String ((Ascii (false, false, true, false, true, true, true, false)),
    EmptyString)))))))))))))))))))))))))
| PJsonKey ->
  String ((Ascii (false, true, false, true, false, false, true, false)),
    (String ((Ascii (true, true, false, false, true, true, true, false)),
    (String ((Ascii (true, true, true, true, false, true, true, false)),
    (String ((Ascii (false, true, true, true, false, true, true, false)),
    (String ((Ascii (true, true, false, true, false, false, true, false)),
    (String ((Ascii (true, false, true, false, false, true, true, false)),
    (String ((Ascii (true, false, false, true, true, true, true, false)),
    EmptyString)))))))))))))
| PJsonNumber ->
  String ((Ascii (false, true, false, true, false, false, true, false)),
    (String ((Ascii (true, true, false, false, true, true, true, false)),
    (String ((Ascii (true, true, true, true, false, true, true, false)),
    (String ((Ascii (false, true, true, true, false, true, true, false)),
    (String ((Ascii (false, true, true, true, false, false, true, false)),
    (String ((Ascii (true, false, true, false, true, true, true, false)),
    (String ((Ascii (true, false, true, true, false, true, true, false)),
    (String ((Ascii (false, true, false, false, false, true, true, false)),
    (String ((Ascii (true, false, true, false, false, true, true, false)),
    (String ((Ascii (false, true, false, false, true, true, true, false)),
    EmptyString)))))))))))))))))))
| PPushKey ->
  String ((Ascii (false, false, false, false, true, false, true, false)),
    (String ((Ascii (true, false, true, false, true, true, true, false)),
    (String ((Ascii (true, true, false, false, true, true, true, false)),
    (String ((Ascii (false, false, false, true, false, true, true, false)),
    (String ((Ascii (true, true, false, true, false, false, true, false)),
    (String ((Ascii (true, false, true, false, false, true, true, false)),
    (String ((Ascii (true, false, false, true, true, true, true, false)),
    EmptyString)))))))))))))
| PResolveLookup ->
  String ((Ascii (false, true, false, false, true, false, true, false)),
    (String ((Ascii (true, false, true, false, false, true, true, false)),
    (String ((Ascii (true, true, false, false, true, true, true, false)),
    (String ((Ascii (true, true, true, true, false, true, true, false)),
    (String ((Ascii (false, false, true, true, false, true, true, false)),
    (String ((Ascii (false, true, true, false, true, true, true, false)),
    (String ((Ascii (true, false, true, false, false, true, true, false)),
    (String ((Ascii (false, false, true, true, false, false, true, false)),
    (String ((Ascii (true, true, true, true, false, true, true, false)),
    (String ((Ascii (true, true, true, true, false, true, true, false)),
    (String ((Ascii (true, true, false, true, false, true, true, false)),
    (String ((Ascii (true, false, true, false, true, true, true, false)),
    (String ((Ascii (false, false, false, false, true, true, true, false)),
    EmptyString)))))))))))))))))))))))))
| PParseTrailing ->
  String ((Ascii (false, false, false, false, true, false, true, false)),
    (String ((Ascii (true, false, false, false, false, true, true, false)),
    (String ((Ascii (false, true, false, false, true, true, true, false)),
    (String ((Ascii (true, true, false, false, true, true, true, false)),
    (String ((Ascii (true, false, true, false, false, true, true, false)),
    (String ((Ascii (false, false, true, false, true, false, true, false)),
    (String ((Ascii (false, true, false, false, true, true, true, false)),
    (String ((Ascii (true, false, false, false, false, true, true, false)),
    (String ((Ascii (true, false, false, true, false, true, true, false)),
    (String ((Ascii (false, false, true, true, false, true, true, false)),
    (String ((Ascii (true, false, false, true, false, true, true, false)),
    (String ((Ascii (false, true, true, true, false, true, true, false)),
    (String ((Ascii (true, true, true, false, false, true, true, false)),
    EmptyString)))))))))))))))))))))))))
| PCoalesceEmpty ->
  String ((Ascii (true, true, false, false, false, false, true, false)),
    (String ((Ascii (true, true, true, true, false, true, true, false)),
    (String ((Ascii (true, false, false, false, false, true, true, false)),
    (String ((Ascii (false, false, true, true, false, true, true, false)),
    (String ((Ascii (true, false, true, false, false, true, true, false)),
    (String ((Ascii (true, true, false, false, true, true, true, false)),
    (String ((Ascii (true, true, false, false, false, true, true, false)),
    (String ((Ascii (true, false, true, false, false, true, true, false)),
    (String ((Ascii (true, false, true, false, false, false, true, false)),
    (String ((Ascii (true, false, true, true, false, true, true, false)),
    (String ((Ascii (false, false, false, false, true, true, true, false)),
    (String ((Ascii (false, false, true, false, true, true, true, false)),
    (String ((Ascii (true, false, false, true, true, true, true, false)),
    EmptyString)))))))))))))))))))))))))
| PYamlTagged ->
  String ((Ascii (true, false, false, true, true, false, true, false)),
    (String ((Ascii (true, false, false, false, false, true, true, false)),
    (String ((Ascii (true, false, true, true, false, true, true, false)),
    (String ((Ascii (false, false, true, true, false, true, true, false)),
    (String ((Ascii (false, false, true, false, true, false, true, false)),
    (String ((Ascii (true, false, false, false, false, true, true, false)),
    (String ((Ascii (true, true, true, false, false, true, true, false)),
    (String ((Ascii (true, true, true, false, false, true, true, false)),
    (String ((Ascii (true, false, true, false, false, true, true, false)),
    (String ((Ascii (false, false, true, false, false, true, true, false)),
    EmptyString)))))))))))))))))))
| PMappingFromUnwrap ->
  String ((Ascii (true, false, true, true, false, false, true, false)),
    (String ((Ascii (true, false, false, false, false, true, true, false)),
    (String ((Ascii (false, false, false, false, true, true, true, false)),
    (String ((Ascii (false, false, false, false, true, true, true, false)),
    (String ((Ascii (true, false, false, true, false, true, true, false)),
    (String ((Ascii (false, true, true, true, false, true, true, false)),
    (String ((Ascii (true, true, true, false, false, true, true, false)),
    (String ((Ascii (false, true, true, false, false, false, true, false)),
    (String ((Ascii (false, true, false, false, true, true, true, false)),
    (String ((Ascii (true, true, true, true, false, true, true, false)),
    (String ((Ascii (true, false, true, true, false, true, true, false)),
    (String ((Ascii (true, false, true, false, true, false, true, false)),
    (String ((Ascii (false, true, true, true, false, true, true, false)),
    (String ((Ascii (true, true, true, false, true, true, true, false)),
    (String ((Ascii (false, true, false, false, true, true, true, false)),
    (String ((Ascii (true, false, false, false, false, true, true, false)),
    (String ((Ascii (false, false, false, false, true, true, true, false)),
    EmptyString)))))))))))))))))))))))))))))))))
| PPyValueList ->
  String ((Ascii (false, false, false, false, true, false, true, false)),
    (String ((Ascii (true, false, false, true, true, true, true, false)),
    (String ((Ascii (false, true, true, false, true, false, true, false)),
    (String ((Ascii (true, false, false, false, false, true, true, false)),
    (String ((Ascii (false, false, true, true, false, true, true, false)),
    (String ((Ascii (true, false, true, false, true, true, true, false)),
    (String ((Ascii (true, false, true, false, false, true, true, false)),
    (String ((Ascii (false, false, true, true, false, false, true, false)),
    (String ((Ascii (true, false, false, true, false, true, true, false)),
    (String ((Ascii (true, true, false, false, true, true, true, false)),
    (String ((Ascii (false, false, true, false, true, true, true, false)),
    EmptyString)))))))))))))))))))))
| PMergeKeysUnwrap ->
  String ((Ascii (true, false, true, true, false, false, true, false)),
    (String ((Ascii (true, false, true, false, false, true, true, false)),
    (String ((Ascii (false, true, false, false, true, true, true, false)),
    (String ((Ascii (true, true, true, false, false, true, true, false)),
    (String ((Ascii (true, false, true, false, false, true, true, false)),
    (String ((Ascii (true, true, false, true, false, false, true, false)),
    (String ((Ascii (true, false, true, false, false, true, true, false)),
    (String ((Ascii (true, false, false, true, true, true, true, false)),
    (String ((Ascii (true, true, false, false, true, true, true, false)),
    (String ((Ascii (true, false, true, false, true, false, true, false)),
    (String ((Ascii (false, true, true, true, false, true, true, false)),
    (String ((Ascii (true, true, true, false, true, true, true, false)),
    (String ((Ascii (false, true, false, false, true, true, true, false)),
    (String ((Ascii (true, false, false, false, false, true, true, false)),
    (String ((Ascii (false, false, false, false, true, true, true, false)),
    EmptyString)))))))))))))))))))))))))))))
| PStackOverflow ->
  String ((Ascii (true, true, false, false, true, false, true, false)),
    (String ((Ascii (false, false, true, false, true, true, true, false)),
    (String ((Ascii (true, false, false, false, false, true, true, false)),
    (String ((Ascii (true, true, false, false, false, true, true, false)),
    (String ((Ascii (true, true, false, true, false, true, true, false)),
    (String ((Ascii (true, true, true, true, false, false, true, false)),
    (String ((Ascii (false, true, true, false, true, true, true, false)),
    (String ((Ascii (true, false, true, false, false, true, true, false)),
    (String ((Ascii (false, true, false, false, true, true, true, false)),
    (String ((Ascii (false, true, true, false, false, true, true, false)),
    (String ((Ascii (false, false, true, true, false, true, true, false)),
    (String ((Ascii (true, true, true, true, false, true, true, false)),
    (String ((Ascii (true, true, true, false, true, true, true, false)),
    EmptyString)))))))))))))))))))))))))

(** val hx : string -> string **)

let hx s =
  append (String ((Ascii (true, true, false, false, true, false, true,
    false)), EmptyString)) (hex s)

(** val hxs : string list -> string **)

let rec hxs = function
| [] -> EmptyString
| x :: xs ->
  append (String ((Ascii (false, false, false, false, false, true, false,
    false)), EmptyString)) (append (hx x) (hxs xs))

(** val canon_err : err -> string **)

let rec canon_err = function
| EConst k ->
  sp (String ((Ascii (true, false, true, false, false, false, true, false)),
    (String ((Ascii (true, true, false, false, false, false, true, false)),
    (String ((Ascii (true, true, true, true, false, true, true, false)),
    (String ((Ascii (false, true, true, true, false, true, true, false)),
    (String ((Ascii (true, true, false, false, true, true, true, false)),
    (String ((Ascii (false, false, true, false, true, true, true, false)),
    EmptyString)))))))))))) (canon_key false k)
| EMerge (p, s, t) ->
  append (String ((Ascii (true, false, true, false, false, false, true,
    false)), (String ((Ascii (true, false, true, true, false, false, true,
    false)), (String ((Ascii (true, false, true, false, false, true, true,
    false)), (String ((Ascii (false, true, false, false, true, true, true,
    false)), (String ((Ascii (true, true, true, false, false, true, true,
    false)), (String ((Ascii (true, false, true, false, false, true, true,
    false)), (String ((Ascii (false, false, false, false, false, true, false,
    false)), EmptyString))))))))))))))
    (append (hx p)
      (append (String ((Ascii (false, false, false, false, false, true,
        false, false)), EmptyString))
        (append (hx s)
          (append (String ((Ascii (false, false, false, false, false, true,
            false, false)), EmptyString)) (hx t)))))
| EFlattenString p ->
  sp (String ((Ascii (true, false, true, false, false, false, true, false)),
    (String ((Ascii (false, true, true, false, false, false, true, false)),
    (String ((Ascii (false, false, true, true, false, true, true, false)),
    (String ((Ascii (true, false, false, false, false, true, true, false)),
    (String ((Ascii (false, false, true, false, true, true, true, false)),
    (String ((Ascii (false, false, true, false, true, true, true, false)),
    (String ((Ascii (true, false, true, false, false, true, true, false)),
    (String ((Ascii (false, true, true, true, false, true, true, false)),
    (String ((Ascii (true, true, false, false, true, false, true, false)),
    (String ((Ascii (false, false, true, false, true, true, true, false)),
    (String ((Ascii (false, true, false, false, true, true, true, false)),
    (String ((Ascii (true, false, false, true, false, true, true, false)),
    (String ((Ascii (false, true, true, true, false, true, true, false)),
    (String ((Ascii (true, true, true, false, false, true, true, false)),
    EmptyString)))))))))))))))))))))))))))) (hx p)
| EParse t ->
  sp (String ((Ascii (true, false, true, false, false, false, true, false)),
    (String ((Ascii (false, false, false, false, true, false, true, false)),
    (String ((Ascii (true, false, false, false, false, true, true, false)),
    (String ((Ascii (false, true, false, false, true, true, true, false)),
    (String ((Ascii (true, true, false, false, true, true, true, false)),
    (String ((Ascii (true, false, true, false, false, true, true, false)),
    EmptyString)))))))))))) (hx t)
| ELoop ps ->
  append (String ((Ascii (true, false, true, false, false, false, true,
    false)), (String ((Ascii (false, false, true, true, false, false, true,
    false)), (String ((Ascii (true, true, true, true, false, true, true,
    false)), (String ((Ascii (true, true, true, true, false, true, true,
    false)), (String ((Ascii (false, false, false, false, true, true, true,
    false)), EmptyString)))))))))) (hxs ps)
| EDepth (p, ps) ->
  append (String ((Ascii (true, false, true, false, false, false, true,
    false)), (String ((Ascii (false, false, true, false, false, false, true,
    false)), (String ((Ascii (true, false, true, false, false, true, true,
    false)), (String ((Ascii (false, false, false, false, true, true, true,
    false)), (String ((Ascii (false, false, true, false, true, true, true,
    false)), (String ((Ascii (false, false, false, true, false, true, true,
    false)), (String ((Ascii (false, false, false, false, false, true, false,
    false)), EmptyString)))))))))))))) (append (hx p) (hxs ps))
| EMissingKey (p, k, pa) ->
  append (String ((Ascii (true, false, true, false, false, false, true,
    false)), (String ((Ascii (true, false, true, true, false, false, true,
    false)), (String ((Ascii (true, false, false, true, false, true, true,
    false)), (String ((Ascii (true, true, false, false, true, true, true,
    false)), (String ((Ascii (true, true, false, false, true, true, true,
    false)), (String ((Ascii (true, false, false, true, false, true, true,
    false)), (String ((Ascii (false, true, true, true, false, true, true,
    false)), (String ((Ascii (true, true, true, false, false, true, true,
    false)), (String ((Ascii (true, true, false, true, false, false, true,
    false)), (String ((Ascii (true, false, true, false, false, true, true,
    false)), (String ((Ascii (true, false, false, true, true, true, true,
    false)), (String ((Ascii (false, false, false, false, false, true, false,
    false)), EmptyString))))))))))))))))))))))))
    (append (hx p)
      (append (String ((Ascii (false, false, false, false, false, true,
        false, false)), EmptyString))
        (append (hx k)
          (append (String ((Ascii (false, false, false, false, false, true,
            false, false)), EmptyString)) (hx pa)))))
| ELookupSeq (p, k, pa) ->
  append (String ((Ascii (true, false, true, false, false, false, true,
    false)), (String ((Ascii (false, false, true, true, false, false, true,
    false)), (String ((Ascii (true, true, true, true, false, true, true,
    false)), (String ((Ascii (true, true, true, true, false, true, true,
    false)), (String ((Ascii (true, true, false, true, false, true, true,
    false)), (String ((Ascii (true, false, true, false, true, true, true,
    false)), (String ((Ascii (false, false, false, false, true, true, true,
    false)), (String ((Ascii (true, true, false, false, true, false, true,
    false)), (String ((Ascii (true, false, true, false, false, true, true,
    false)), (String ((Ascii (true, false, false, false, true, true, true,
    false)), (String ((Ascii (false, false, false, false, false, true, false,
    false)), EmptyString))))))))))))))))))))))
    (append (hx p)
      (append (String ((Ascii (false, false, false, false, false, true,
        false, false)), EmptyString))
        (append (hx k)
          (append (String ((Ascii (false, false, false, false, false, true,
            false, false)), EmptyString)) (hx pa)))))
| ELookupKind (p, k, pa, tr, kd) ->
  append (String ((Ascii (true, false, true, false, false, false, true,
    false)), (String ((Ascii (false, false, true, true, false, false, true,
    false)), (String ((Ascii (true, true, true, true, false, true, true,
    false)), (String ((Ascii (true, true, true, true, false, true, true,
    false)), (String ((Ascii (true, true, false, true, false, true, true,
    false)), (String ((Ascii (true, false, true, false, true, true, true,
    false)), (String ((Ascii (false, false, false, false, true, true, true,
    false)), (String ((Ascii (true, true, false, true, false, false, true,
    false)), (String ((Ascii (true, false, false, true, false, true, true,
    false)), (String ((Ascii (false, true, true, true, false, true, true,
    false)), (String ((Ascii (false, false, true, false, false, true, true,
    false)), (String ((Ascii (false, false, false, false, false, true, false,
    false)), EmptyString))))))))))))))))))))))))
    (append (hx p)
      (append (String ((Ascii (false, false, false, false, false, true,
        false, false)), EmptyString))
        (append (hx k)
          (append (String ((Ascii (false, false, false, false, false, true,
            false, false)), EmptyString))
            (append (hx pa)
              (append (String ((Ascii (false, false, false, false, false,
                true, false, false)), EmptyString))
                (append (hx tr)
                  (append (String ((Ascii (false, false, false, false, false,
                    true, false, false)), EmptyString)) (hx kd)))))))))
| ERawString k ->
  sp (String ((Ascii (true, false, true, false, false, false, true, false)),
    (String ((Ascii (false, true, false, false, true, false, true, false)),
    (String ((Ascii (true, false, false, false, false, true, true, false)),
    (String ((Ascii (true, true, true, false, true, true, true, false)),
    (String ((Ascii (true, true, false, false, true, false, true, false)),
    (String ((Ascii (false, false, true, false, true, true, true, false)),
    (String ((Ascii (false, true, false, false, true, true, true, false)),
    (String ((Ascii (true, false, false, true, false, true, true, false)),
    (String ((Ascii (false, true, true, true, false, true, true, false)),
    (String ((Ascii (true, true, true, false, false, true, true, false)),
    EmptyString)))))))))))))))))))) (hx k)
| EKeyValueList ->
  String ((Ascii (true, false, true, false, false, false, true, false)),
    (String ((Ascii (true, true, false, true, false, false, true, false)),
    (String ((Ascii (true, false, true, false, false, true, true, false)),
    (String ((Ascii (true, false, false, true, true, true, true, false)),
    (String ((Ascii (false, true, true, false, true, false, true, false)),
    (String ((Ascii (true, false, false, false, false, true, true, false)),
    (String ((Ascii (false, false, true, true, false, true, true, false)),
    (String ((Ascii (true, false, true, false, true, true, true, false)),
    (String ((Ascii (true, false, true, false, false, true, true, false)),
    (String ((Ascii (false, false, true, true, false, false, true, false)),
    (String ((Ascii (true, false, false, true, false, true, true, false)),
    (String ((Ascii (true, true, false, false, true, true, true, false)),
    (String ((Ascii (false, false, true, false, true, true, true, false)),
    EmptyString)))))))))))))))))))))))))
| EJsonKey k ->
  sp (String ((Ascii (true, false, true, false, false, false, true, false)),
    (String ((Ascii (false, true, false, true, false, false, true, false)),
    (String ((Ascii (true, true, false, false, true, true, true, false)),
    (String ((Ascii (true, true, true, true, false, true, true, false)),
    (String ((Ascii (false, true, true, true, false, true, true, false)),
    (String ((Ascii (true, true, false, true, false, false, true, false)),
    (String ((Ascii (true, false, true, false, false, true, true, false)),
    (String ((Ascii (true, false, false, true, true, true, true, false)),
    EmptyString)))))))))))))))) (hx k)
| EJsonValueList ->
  String ((Ascii (true, false, true, false, false, false, true, false)),
    (String ((Ascii (false, true, false, true, false, false, true, false)),
    (String ((Ascii (true, true, false, false, true, true, true, false)),
    (String ((Ascii (true, true, true, true, false, true, true, false)),
    (String ((Ascii (false, true, true, true, false, true, true, false)),
    (String ((Ascii (false, true, true, false, true, false, true, false)),
    (String ((Ascii (true, false, false, false, false, true, true, false)),
    (String ((Ascii (false, false, true, true, false, true, true, false)),
    (String ((Ascii (true, false, true, false, true, true, true, false)),
    (String ((Ascii (true, false, true, false, false, true, true, false)),
    (String ((Ascii (false, false, true, true, false, false, true, false)),
    (String ((Ascii (true, false, false, true, false, true, true, false)),
    (String ((Ascii (true, true, false, false, true, true, true, false)),
    (String ((Ascii (false, false, true, false, true, true, true, false)),
    EmptyString)))))))))))))))))))))))))))
| ETagged t ->
  sp (String ((Ascii (true, false, true, false, false, false, true, false)),
    (String ((Ascii (false, false, true, false, true, false, true, false)),
    (String ((Ascii (true, false, false, false, false, true, true, false)),
    (String ((Ascii (true, true, true, false, false, true, true, false)),
    (String ((Ascii (true, true, true, false, false, true, true, false)),
    (String ((Ascii (true, false, true, false, false, true, true, false)),
    (String ((Ascii (false, false, true, false, false, true, true, false)),
    EmptyString)))))))))))))) (hx t)
| ERenderNonMapping k ->
  sp (String ((Ascii (true, false, true, false, false, false, true, false)),
    (String ((Ascii (false, true, false, false, true, false, true, false)),
    (String ((Ascii (true, false, true, false, false, true, true, false)),
    (String ((Ascii (false, true, true, true, false, true, true, false)),
    (String ((Ascii (false, false, true, false, false, true, true, false)),
    (String ((Ascii (true, false, true, false, false, true, true, false)),
    (String ((Ascii (false, true, false, false, true, true, true, false)),
    (String ((Ascii (false, true, true, true, false, false, true, false)),
    (String ((Ascii (true, true, true, true, false, true, true, false)),
    (String ((Ascii (false, true, true, true, false, true, true, false)),
    (String ((Ascii (true, false, true, true, false, false, true, false)),
    (String ((Ascii (true, false, false, false, false, true, true, false)),
    (String ((Ascii (false, false, false, false, true, true, true, false)),
    (String ((Ascii (false, false, false, false, true, true, true, false)),
    (String ((Ascii (true, false, false, true, false, true, true, false)),
    (String ((Ascii (false, true, true, true, false, true, true, false)),
    (String ((Ascii (true, true, true, false, false, true, true, false)),
    EmptyString)))))))))))))))))))))))))))))))))) (hx k)
| EResolving e0 ->
  sp (String ((Ascii (true, false, true, false, false, false, true, false)),
    (String ((Ascii (false, true, false, false, true, false, true, false)),
    (String ((Ascii (true, false, true, false, false, true, true, false)),
    (String ((Ascii (true, true, false, false, true, true, true, false)),
    (String ((Ascii (true, true, true, true, false, true, true, false)),
    (String ((Ascii (false, false, true, true, false, true, true, false)),
    (String ((Ascii (false, true, true, false, true, true, true, false)),
    (String ((Ascii (true, false, false, true, false, true, true, false)),
    (String ((Ascii (false, true, true, true, false, true, true, false)),
    (String ((Ascii (true, true, true, false, false, true, true, false)),
    EmptyString)))))))))))))))))))) (canon_err e0)
| EClassNotFound c ->
  sp (String ((Ascii (true, false, true, false, false, false, true, false)),
    (String ((Ascii (true, true, false, false, false, false, true, false)),
    (String ((Ascii (false, false, true, true, false, true, true, false)),
    (String ((Ascii (true, false, false, false, false, true, true, false)),
    (String ((Ascii (true, true, false, false, true, true, true, false)),
    (String ((Ascii (true, true, false, false, true, true, true, false)),
    (String ((Ascii (false, true, true, true, false, false, true, false)),
    (String ((Ascii (true, true, true, true, false, true, true, false)),
    (String ((Ascii (false, false, true, false, true, true, true, false)),
    (String ((Ascii (false, true, true, false, false, false, true, false)),
    (String ((Ascii (true, true, true, true, false, true, true, false)),
    (String ((Ascii (true, false, true, false, true, true, true, false)),
    (String ((Ascii (false, true, true, true, false, true, true, false)),
    (String ((Ascii (false, false, true, false, false, true, true, false)),
    EmptyString)))))))))))))))))))))))))))) (hx c)
| EIncludeLoop (ch, c) ->
  append (String ((Ascii (true, false, true, false, false, false, true,
    false)), (String ((Ascii (true, false, false, true, false, false, true,
    false)), (String ((Ascii (false, true, true, true, false, true, true,
    false)), (String ((Ascii (true, true, false, false, false, true, true,
    false)), (String ((Ascii (false, false, true, true, false, true, true,
    false)), (String ((Ascii (true, false, true, false, true, true, true,
    false)), (String ((Ascii (false, false, true, false, false, true, true,
    false)), (String ((Ascii (true, false, true, false, false, true, true,
    false)), (String ((Ascii (false, false, true, true, false, false, true,
    false)), (String ((Ascii (true, true, true, true, false, true, true,
    false)), (String ((Ascii (true, true, true, true, false, true, true,
    false)), (String ((Ascii (false, false, false, false, true, true, true,
    false)), (String ((Ascii (false, false, false, false, false, true, false,
    false)), EmptyString)))))))))))))))))))))))))) (append (hx c) (hxs ch))
| EUnknownNode n0 ->
  sp (String ((Ascii (true, false, true, false, false, false, true, false)),
    (String ((Ascii (true, false, true, false, true, false, true, false)),
    (String ((Ascii (false, true, true, true, false, true, true, false)),
    (String ((Ascii (true, true, false, true, false, true, true, false)),
    (String ((Ascii (false, true, true, true, false, true, true, false)),
    (String ((Ascii (true, true, true, true, false, true, true, false)),
    (String ((Ascii (true, true, true, false, true, true, true, false)),
    (String ((Ascii (false, true, true, true, false, true, true, false)),
    (String ((Ascii (false, true, true, true, false, false, true, false)),
    (String ((Ascii (true, true, true, true, false, true, true, false)),
    (String ((Ascii (false, false, true, false, false, true, true, false)),
    (String ((Ascii (true, false, true, false, false, true, true, false)),
    EmptyString)))))))))))))))))))))))) (hx n0)
| EClassPath m ->
  sp (String ((Ascii (true, false, true, false, false, false, true, false)),
    (String ((Ascii (true, true, false, false, false, false, true, false)),
    (String ((Ascii (false, false, true, true, false, true, true, false)),
    (String ((Ascii (true, false, false, false, false, true, true, false)),
    (String ((Ascii (true, true, false, false, true, true, true, false)),
    (String ((Ascii (true, true, false, false, true, true, true, false)),
    (String ((Ascii (false, false, false, false, true, false, true, false)),
    (String ((Ascii (true, false, false, false, false, true, true, false)),
    (String ((Ascii (false, false, true, false, true, true, true, false)),
    (String ((Ascii (false, false, false, true, false, true, true, false)),
    EmptyString)))))))))))))))))))) (hx m)
| EDeserialize (c, e0) ->
  append (String ((Ascii (true, false, true, false, false, false, true,
    false)), (String ((Ascii (false, false, true, false, false, false, true,
    false)), (String ((Ascii (true, false, true, false, false, true, true,
    false)), (String ((Ascii (true, true, false, false, true, true, true,
    false)), (String ((Ascii (true, false, true, false, false, true, true,
    false)), (String ((Ascii (false, true, false, false, true, true, true,
    false)), (String ((Ascii (true, false, false, true, false, true, true,
    false)), (String ((Ascii (true, false, false, false, false, true, true,
    false)), (String ((Ascii (false, false, true, true, false, true, true,
    false)), (String ((Ascii (true, false, false, true, false, true, true,
    false)), (String ((Ascii (false, true, false, true, true, true, true,
    false)), (String ((Ascii (true, false, true, false, false, true, true,
    false)), (String ((Ascii (false, false, false, false, false, true, false,
    false)), EmptyString))))))))))))))))))))))))))
    (append (hx c)
      (append (String ((Ascii (false, false, false, false, false, true,
        false, false)), EmptyString)) (canon_err e0)))
| EYamlShape w ->
  sp (String ((Ascii (true, false, true, false, false, false, true, false)),
    (String ((Ascii (true, false, false, true, true, false, true, false)),
    (String ((Ascii (true, false, false, false, false, true, true, false)),
    (String ((Ascii (true, false, true, true, false, true, true, false)),
    (String ((Ascii (false, false, true, true, false, true, true, false)),
    (String ((Ascii (true, true, false, false, true, false, true, false)),
    (String ((Ascii (false, false, false, true, false, true, true, false)),
    (String ((Ascii (true, false, false, false, false, true, true, false)),
    (String ((Ascii (false, false, false, false, true, true, true, false)),
    (String ((Ascii (true, false, true, false, false, true, true, false)),
    EmptyString)))))))))))))))))))) (hx w)
| EMetaParts ->
  String ((Ascii (true, false, true, false, false, false, true, false)),
    (String ((Ascii (true, false, true, true, false, false, true, false)),
    (String ((Ascii (true, false, true, false, false, true, true, false)),
    (String ((Ascii (false, false, true, false, true, true, true, false)),
    (String ((Ascii (true, false, false, false, false, true, true, false)),
    (String ((Ascii (false, false, false, false, true, false, true, false)),
    (String ((Ascii (true, false, false, false, false, true, true, false)),
    (String ((Ascii (false, true, false, false, true, true, true, false)),
    (String ((Ascii (false, false, true, false, true, true, true, false)),
    (String ((Ascii (true, true, false, false, true, true, true, false)),
    EmptyString)))))))))))))))))))
| EDuplicate (k, n0, p1, p2) ->
  append (String ((Ascii (true, false, true, false, false, false, true,
    false)), (String ((Ascii (false, false, true, false, false, false, true,
    false)), (String ((Ascii (true, false, true, false, true, true, true,
    false)), (String ((Ascii (false, false, false, false, true, true, true,
    false)), (String ((Ascii (false, false, true, true, false, true, true,
    false)), (String ((Ascii (true, false, false, true, false, true, true,
    false)), (String ((Ascii (true, true, false, false, false, true, true,
    false)), (String ((Ascii (true, false, false, false, false, true, true,
    false)), (String ((Ascii (false, false, true, false, true, true, true,
    false)), (String ((Ascii (true, false, true, false, false, true, true,
    false)), (String ((Ascii (false, false, false, false, false, true, false,
    false)), EmptyString))))))))))))))))))))))
    (append (hx k)
      (append (String ((Ascii (false, false, false, false, false, true,
        false, false)), EmptyString))
        (append (hx n0)
          (append (String ((Ascii (false, false, false, false, false, true,
            false, false)), EmptyString))
            (append (hx p1)
              (append (String ((Ascii (false, false, false, false, false,
                true, false, false)), EmptyString)) (hx p2)))))))
| ENodeFailed (n0, e0) ->
  append (String ((Ascii (true, false, true, false, false, false, true,
    false)), (String ((Ascii (false, true, true, true, false, false, true,
    false)), (String ((Ascii (true, true, true, true, false, true, true,
    false)), (String ((Ascii (false, false, true, false, false, true, true,
    false)), (String ((Ascii (true, false, true, false, false, true, true,
    false)), (String ((Ascii (false, true, true, false, false, false, true,
    false)), (String ((Ascii (true, false, false, false, false, true, true,
    false)), (String ((Ascii (true, false, false, true, false, true, true,
    false)), (String ((Ascii (false, false, true, true, false, true, true,
    false)), (String ((Ascii (true, false, true, false, false, true, true,
    false)), (String ((Ascii (false, false, true, false, false, true, true,
    false)), (String ((Ascii (false, false, false, false, false, true, false,
    false)), EmptyString))))))))))))))))))))))))
    (append (hx n0)
      (append (String ((Ascii (false, false, false, false, false, true,
        false, false)), EmptyString)) (canon_err e0)))
| EConfig w ->
  sp (String ((Ascii (true, false, true, false, false, false, true, false)),
    (String ((Ascii (true, true, false, false, false, false, true, false)),
    (String ((Ascii (true, true, true, true, false, true, true, false)),
    (String ((Ascii (false, true, true, true, false, true, true, false)),
    (String ((Ascii (false, true, true, false, false, true, true, false)),
    (String ((Ascii (true, false, false, true, false, true, true, false)),
    (String ((Ascii (true, true, true, false, false, true, true, false)),
    EmptyString)))))))))))))) (hx w)
| EOther m ->
  sp (String ((Ascii (true, false, true, false, false, false, true, false)),
    (String ((Ascii (true, true, true, true, false, false, true, false)),
    (String ((Ascii (false, false, true, false, true, true, true, false)),
    (String ((Ascii (false, false, false, true, false, true, true, false)),
    (String ((Ascii (true, false, true, false, false, true, true, false)),
    (String ((Ascii (false, true, false, false, true, true, true, false)),
    EmptyString)))))))))))) (hx m)

(** val canon_res : ('a1 -> string) -> 'a1 res -> string **)

let canon_res pr = function
| Ok a ->
  sp (String ((Ascii (true, true, true, true, false, true, true, false)),
    (String ((Ascii (true, true, false, true, false, true, true, false)),
    EmptyString)))) (pr a)
| Err e ->
  sp (String ((Ascii (true, false, true, false, false, true, true, false)),
    (String ((Ascii (false, true, false, false, true, true, true, false)),
    (String ((Ascii (false, true, false, false, true, true, true, false)),
    EmptyString)))))) (canon_err e)
| Panic s ->
  sp (String ((Ascii (false, false, false, false, true, true, true, false)),
    (String ((Ascii (true, false, false, false, false, true, true, false)),
    (String ((Ascii (false, true, true, true, false, true, true, false)),
    (String ((Ascii (true, false, false, true, false, true, true, false)),
    (String ((Ascii (true, true, false, false, false, true, true, false)),
    EmptyString)))))))))) (site_name s)
| OutOfFuel ->
  String ((Ascii (false, true, true, false, false, true, true, false)),
    (String ((Ascii (true, false, true, false, true, true, true, false)),
    (String ((Ascii (true, false, true, false, false, true, true, false)),
    (String ((Ascii (false, false, true, true, false, true, true, false)),
    EmptyString)))))))

(** val canon_token : token -> string **)

let rec canon_token = function
| TLit s ->
  append (String ((Ascii (false, false, true, true, false, true, true,
    false)), EmptyString)) (hex s)
| TRef ts ->
  append
    (append (String ((Ascii (false, true, false, false, true, true, true,
      false)), EmptyString)) (nat_to_string (length ts)))
    (let rec go = function
     | [] -> EmptyString
     | x :: xs ->
       append (String ((Ascii (false, false, false, false, false, true,
         false, false)), EmptyString)) (append (canon_token x) (go xs))
     in go ts)
| TComb ts ->
  append
    (append (String ((Ascii (true, true, false, false, false, true, true,
      false)), EmptyString)) (nat_to_string (length ts)))
    (let rec go = function
     | [] -> EmptyString
     | x :: xs ->
       append (String ((Ascii (false, false, false, false, false, true,
         false, false)), EmptyString)) (append (canon_token x) (go xs))
     in go ts)

(** val count_dots : string -> nat * string **)

let rec count_dots s = match s with
| EmptyString -> (O, s)
| String (a, s') ->
  let Ascii (b, b0, b1, b2, b3, b4, b5, b6) = a in
  if b
  then (O, s)
  else if b0
       then if b1
            then if b2
                 then if b3
                      then (O, s)
                      else if b4
                           then if b5
                                then (O, s)
                                else if b6
                                     then (O, s)
                                     else let (n0, r) = count_dots s' in
                                          ((S n0), r)
                           else (O, s)
                 else (O, s)
            else (O, s)
       else (O, s)

(** val drop_last : nat -> string list -> string list **)

let drop_last n0 l =
  firstn (sub (length l) n0) l

(** val abs_class_name : string list -> string -> string **)

let abs_class_name loc cls =
  let (n0, rest) = count_dots cls in
  (match n0 with
   | O -> cls
   | S n1 ->
     append
       (concat_str
         (map (fun p ->
           append p (String ((Ascii (false, true, true, true, false, true,
             false, false)), EmptyString))) (drop_last n1 loc))) rest)

(** val rindex_dot : string -> nat -> nat option -> nat option **)

let rec rindex_dot s i last =
  match s with
  | EmptyString -> last
  | String (c, s') ->
    rindex_dot s' (S i)
      (if eqb0 c (Ascii (false, true, true, true, false, true, false, false))
       then Some i
       else last)

(** val take_str : nat -> string -> string **)

let rec take_str n0 s =
  match n0 with
  | O -> EmptyString
  | S n' ->
    (match s with
     | EmptyString -> EmptyString
     | String (c, s') -> String (c, (take_str n' s')))

(** val drop_str : nat -> string -> string **)

let rec drop_str n0 s =
  match n0 with
  | O -> s
  | S n' -> (match s with
             | EmptyString -> s
             | String (_, s') -> drop_str n' s')

(** val split_ext : string -> string * string option **)

let split_ext name =
  if eqb1 name (String ((Ascii (false, true, true, true, false, true, false,
       false)), (String ((Ascii (false, true, true, true, false, true, false,
       false)), EmptyString))))
  then (name, None)
  else (match rindex_dot name O None with
        | Some i ->
          (match i with
           | O -> (name, None)
           | S _ -> ((take_str i name), (Some (drop_str (S i) name))))
        | None -> (name, None))

(** val is_yaml_ext : string option -> bool **)

let is_yaml_ext = function
| Some x ->
  (||)
    (eqb1 x (String ((Ascii (true, false, false, true, true, true, true,
      false)), (String ((Ascii (true, false, true, true, false, true, true,
      false)), (String ((Ascii (false, false, true, true, false, true, true,
      false)), EmptyString)))))))
    (eqb1 x (String ((Ascii (true, false, false, true, true, true, true,
      false)), (String ((Ascii (true, false, false, false, false, true, true,
      false)), (String ((Ascii (true, false, true, true, false, true, true,
      false)), (String ((Ascii (false, false, true, true, false, true, true,
      false)), EmptyString)))))))))
| None -> false

(** val last_seg : string list -> string **)

let rec last_seg = function
| [] -> EmptyString
| x :: l' -> (match l' with
              | [] -> x
              | _ :: _ -> last_seg l')

(** val starts_with_underscore : string -> bool **)

let starts_with_underscore = function
| EmptyString -> false
| String (a, _) ->
  let Ascii (b, b0, b1, b2, b3, b4, b5, b6) = a in
  if b
  then if b0
       then if b1
            then if b2
                 then if b3
                      then if b4
                           then false
                           else if b5
                                then if b6 then false else true
                                else false
                      else false
                 else false
            else false
       else false
  else false

type ekind =
| KNode
| KClass

type entity = { en_name : string; en_path : string list; en_loc : string list }

(** val entity_of : ekind -> bool -> string list -> entity option **)

let entity_of kind compose relpath =
  match rev0 relpath with
  | [] -> None
  | fname :: rparent ->
    let parent = rev0 rparent in
    let (stem, ext) = split_ext fname in
    if is_yaml_ext ext
    then if eqb1 stem (String ((Ascii (true, false, false, true, false, true,
              true, false)), (String ((Ascii (false, true, true, true, false,
              true, true, false)), (String ((Ascii (true, false, false, true,
              false, true, true, false)), (String ((Ascii (false, false,
              true, false, true, true, true, false)), EmptyString))))))))
         then let loc = removelast parent in
              let clsstr =
                join (String ((Ascii (true, true, true, true, false, true,
                  false, false)), EmptyString)) parent
              in
              (match kind with
               | KNode ->
                 if (||) (starts_with_underscore clsstr) (negb compose)
                 then let cls2 = (last_seg parent) :: [] in
                      let loc2 = [] in
                      Some { en_name =
                      (join (String ((Ascii (false, true, true, true, false,
                        true, false, false)), EmptyString)) cls2); en_path =
                      relpath; en_loc = loc2 }
                 else Some { en_name =
                        (join (String ((Ascii (false, true, true, true,
                          false, true, false, false)), EmptyString)) parent);
                        en_path = relpath; en_loc = loc }
               | KClass ->
                 Some { en_name =
                   (join (String ((Ascii (false, true, true, true, false,
                     true, false, false)), EmptyString)) parent); en_path =
                   relpath; en_loc = loc })
         else let cls = app parent (stem :: []) in
              let clsstr =
                join (String ((Ascii (true, true, true, true, false, true,
                  false, false)), EmptyString)) cls
              in
              (match kind with
               | KNode ->
                 if (||) (starts_with_underscore clsstr) (negb compose)
                 then let cls2 = (last_seg cls) :: [] in
                      let loc2 = [] in
                      Some { en_name =
                      (join (String ((Ascii (false, true, true, true, false,
                        true, false, false)), EmptyString)) cls2); en_path =
                      relpath; en_loc = loc2 }
                 else Some { en_name =
                        (join (String ((Ascii (false, true, true, true,
                          false, true, false, false)), EmptyString)) cls);
                        en_path = relpath; en_loc = parent }
               | KClass ->
                 Some { en_name =
                   (join (String ((Ascii (false, true, true, true, false,
                     true, false, false)), EmptyString)) cls); en_path =
                   relpath; en_loc = parent })
    else None

(** val find_entity : string -> entity list -> entity option **)

let rec find_entity n0 = function
| [] -> None
| e :: es' -> if eqb1 e.en_name n0 then Some e else find_entity n0 es'

(** val kind_name : ekind -> string **)

let kind_name = function
| KNode ->
  String ((Ascii (false, true, true, true, false, true, true, false)),
    (String ((Ascii (true, true, true, true, false, true, true, false)),
    (String ((Ascii (false, false, true, false, false, true, true, false)),
    (String ((Ascii (true, false, true, false, false, true, true, false)),
    EmptyString)))))))
| KClass ->
  String ((Ascii (true, true, false, false, false, true, true, false)),
    (String ((Ascii (false, false, true, true, false, true, true, false)),
    (String ((Ascii (true, false, false, false, false, true, true, false)),
    (String ((Ascii (true, true, false, false, true, true, true, false)),
    (String ((Ascii (true, true, false, false, true, true, true, false)),
    EmptyString)))))))))

(** val discover_from :
    ekind -> bool -> string list list -> entity list -> entity list res **)

let rec discover_from kind compose entries acc0 =
  match entries with
  | [] -> Ok acc0
  | p :: rest ->
    (match entity_of kind compose p with
     | Some e ->
       (match find_entity e.en_name acc0 with
        | Some prev ->
          let a =
            join (String ((Ascii (true, true, true, true, false, true, false,
              false)), EmptyString)) prev.en_path
          in
          let b =
            join (String ((Ascii (true, true, true, true, false, true, false,
              false)), EmptyString)) p
          in
          if ltb0 a b
          then Err (EDuplicate ((kind_name kind), e.en_name, a, b))
          else Err (EDuplicate ((kind_name kind), e.en_name, b, a))
        | None -> discover_from kind compose rest (app acc0 (e :: [])))
     | None -> discover_from kind compose rest acc0)

(** val discover : ekind -> bool -> string list list -> entity list res **)

let discover kind compose entries =
  discover_from kind compose entries []

type ncfg = { c_ignore : bool; c_matches : string list; c_compose : bool;
              c_literal_dots : bool }

type node = { n_apps : rlist; n_classes : ulist; n_params : mapping;
              n_loc : string list }

(** val empty_node : node **)

let empty_node =
  { n_apps = r_empty; n_classes = []; n_params = []; n_loc = [] }

type cls_entry = { ce_name : string; ce_doc : yaml; ce_loc : string list }

(** val find_class : string -> cls_entry list -> cls_entry option **)

let rec find_class n0 = function
| [] -> None
| e :: tbl' -> if eqb1 e.ce_name n0 then Some e else find_class n0 tbl'

(** val y_field : string -> (yaml * yaml) list -> yaml option **)

let rec y_field name = function
| [] -> None
| p :: l' ->
  let (y, v) = p in
  (match y with
   | YStr k -> if eqb1 k name then Some v else y_field name l'
   | _ -> y_field name l')

(** val y_scalar_text : yaml -> string option **)

let y_scalar_text = function
| YNull ->
  Some (String ((Ascii (false, true, true, true, false, true, true, false)),
    (String ((Ascii (true, false, true, false, true, true, true, false)),
    (String ((Ascii (false, false, true, true, false, true, true, false)),
    (String ((Ascii (false, false, true, true, false, true, true, false)),
    EmptyString))))))))
| YBool b ->
  if b
  then Some (String ((Ascii (false, false, true, false, true, true, true,
         false)), (String ((Ascii (false, true, false, false, true, true,
         true, false)), (String ((Ascii (true, false, true, false, true,
         true, true, false)), (String ((Ascii (true, false, true, false,
         false, true, true, false)), EmptyString))))))))
  else Some (String ((Ascii (false, true, true, false, false, true, true,
         false)), (String ((Ascii (true, false, false, false, false, true,
         true, false)), (String ((Ascii (false, false, true, true, false,
         true, true, false)), (String ((Ascii (true, true, false, false,
         true, true, true, false)), (String ((Ascii (true, false, true,
         false, false, true, true, false)), EmptyString))))))))))
| YNum n0 -> Some (num_display n0)
| YStr s -> Some s
| _ -> None

(** val y_strings : yaml list -> string list option **)

let rec y_strings = function
| [] -> Some []
| y :: l' ->
  (match y_scalar_text y with
   | Some s ->
     (match y_strings l' with
      | Some ss -> Some (s :: ss)
      | None -> None)
   | None -> None)

(** val y_string_list : string -> yaml option -> string list res **)

let y_string_list what = function
| Some y ->
  (match y with
   | YSeq l ->
     (match y_strings l with
      | Some ss -> Ok ss
      | None -> Err (EYamlShape what))
   | _ -> Err (EYamlShape what))
| None -> Ok []

(** val node_of_yaml : string list -> yaml -> node res **)

let node_of_yaml loc = function
| YMap fields ->
  bind
    (y_string_list (String ((Ascii (true, false, false, false, false, true,
      true, false)), (String ((Ascii (false, false, false, false, true, true,
      true, false)), (String ((Ascii (false, false, false, false, true, true,
      true, false)), (String ((Ascii (false, false, true, true, false, true,
      true, false)), (String ((Ascii (true, false, false, true, false, true,
      true, false)), (String ((Ascii (true, true, false, false, false, true,
      true, false)), (String ((Ascii (true, false, false, false, false, true,
      true, false)), (String ((Ascii (false, false, true, false, true, true,
      true, false)), (String ((Ascii (true, false, false, true, false, true,
      true, false)), (String ((Ascii (true, true, true, true, false, true,
      true, false)), (String ((Ascii (false, true, true, true, false, true,
      true, false)), (String ((Ascii (true, true, false, false, true, true,
      true, false)), EmptyString))))))))))))))))))))))))
      (y_field (String ((Ascii (true, false, false, false, false, true, true,
        false)), (String ((Ascii (false, false, false, false, true, true,
        true, false)), (String ((Ascii (false, false, false, false, true,
        true, true, false)), (String ((Ascii (false, false, true, true,
        false, true, true, false)), (String ((Ascii (true, false, false,
        true, false, true, true, false)), (String ((Ascii (true, true, false,
        false, false, true, true, false)), (String ((Ascii (true, false,
        false, false, false, true, true, false)), (String ((Ascii (false,
        false, true, false, true, true, true, false)), (String ((Ascii (true,
        false, false, true, false, true, true, false)), (String ((Ascii
        (true, true, true, true, false, true, true, false)), (String ((Ascii
        (false, true, true, true, false, true, true, false)), (String ((Ascii
        (true, true, false, false, true, true, true, false)),
        EmptyString)))))))))))))))))))))))) fields)) (fun apps ->
    bind
      (y_string_list (String ((Ascii (true, true, false, false, false, true,
        true, false)), (String ((Ascii (false, false, true, true, false,
        true, true, false)), (String ((Ascii (true, false, false, false,
        false, true, true, false)), (String ((Ascii (true, true, false,
        false, true, true, true, false)), (String ((Ascii (true, true, false,
        false, true, true, true, false)), (String ((Ascii (true, false, true,
        false, false, true, true, false)), (String ((Ascii (true, true,
        false, false, true, true, true, false)), EmptyString))))))))))))))
        (y_field (String ((Ascii (true, true, false, false, false, true,
          true, false)), (String ((Ascii (false, false, true, true, false,
          true, true, false)), (String ((Ascii (true, false, false, false,
          false, true, true, false)), (String ((Ascii (true, true, false,
          false, true, true, true, false)), (String ((Ascii (true, true,
          false, false, true, true, true, false)), (String ((Ascii (true,
          false, true, false, false, true, true, false)), (String ((Ascii
          (true, true, false, false, true, true, true, false)),
          EmptyString)))))))))))))) fields)) (fun classes ->
      bind
        (match y_field (String ((Ascii (false, false, false, false, true,
                 true, true, false)), (String ((Ascii (true, false, false,
                 false, false, true, true, false)), (String ((Ascii (false,
                 true, false, false, true, true, true, false)), (String
                 ((Ascii (true, false, false, false, false, true, true,
                 false)), (String ((Ascii (true, false, true, true, false,
                 true, true, false)), (String ((Ascii (true, false, true,
                 false, false, true, true, false)), (String ((Ascii (false,
                 false, true, false, true, true, true, false)), (String
                 ((Ascii (true, false, true, false, false, true, true,
                 false)), (String ((Ascii (false, true, false, false, true,
                 true, true, false)), (String ((Ascii (true, true, false,
                 false, true, true, true, false)),
                 EmptyString)))))))))))))))))))) fields with
         | Some y ->
           (match y with
            | YMap m -> Ok (YMap m)
            | _ ->
              Err (EYamlShape (String ((Ascii (false, false, false, false,
                true, true, true, false)), (String ((Ascii (true, false,
                false, false, false, true, true, false)), (String ((Ascii
                (false, true, false, false, true, true, true, false)),
                (String ((Ascii (true, false, false, false, false, true,
                true, false)), (String ((Ascii (true, false, true, true,
                false, true, true, false)), (String ((Ascii (true, false,
                true, false, false, true, true, false)), (String ((Ascii
                (false, false, true, false, true, true, true, false)),
                (String ((Ascii (true, false, true, false, false, true, true,
                false)), (String ((Ascii (false, true, false, false, true,
                true, true, false)), (String ((Ascii (true, true, false,
                false, true, true, true, false)),
                EmptyString))))))))))))))))))))))
         | None -> Ok (YMap [])) (fun pdoc ->
        let classes' =
          fold_left u_append (map (abs_class_name loc) (u_from classes)) []
        in
        bind (try_mapping_of_yaml pdoc) (fun params -> Ok { n_apps =
          (r_from apps); n_classes = classes'; n_params = params; n_loc =
          loc }))))
| _ ->
  Err (EYamlShape (String ((Ascii (false, false, true, false, false, true,
    true, false)), (String ((Ascii (true, true, true, true, false, true,
    true, false)), (String ((Ascii (true, true, false, false, false, true,
    true, false)), (String ((Ascii (true, false, true, false, true, true,
    true, false)), (String ((Ascii (true, false, true, true, false, true,
    true, false)), (String ((Ascii (true, false, true, false, false, true,
    true, false)), (String ((Ascii (false, true, true, true, false, true,
    true, false)), (String ((Ascii (false, false, true, false, true, true,
    true, false)), EmptyString)))))))))))))))))

(** val read_class :
    ncfg -> cls_entry list -> string list -> string -> node option res **)

let read_class cfg tbl self_loc name =
  let cls = abs_class_name self_loc name in
  (match find_class cls tbl with
   | Some ce ->
     bind
       (map_err (fun x -> EDeserialize (cls, x))
         (node_of_yaml ce.ce_loc ce.ce_doc)) (fun n0 -> Ok (Some n0))
   | None ->
     if (&&) cfg.c_ignore (mem cls cfg.c_matches)
     then Ok None
     else Err (EClassNotFound cls))

(** val merge_into : node -> node -> (node * node) res **)

let merge_into self other =
  let apps = r_merge other.n_apps self.n_apps in
  let classes = u_merge other.n_classes self.n_classes in
  bind (mapping_merge other.n_params self.n_params) (fun params -> Ok
    ({ n_apps = apps; n_classes = classes; n_params = params; n_loc =
    self.n_loc }, { n_apps = apps; n_classes = classes; n_params = params;
    n_loc = other.n_loc }))

(** val include_name : nat -> mapping -> string -> string res **)

let include_name fi root_params cls =
  if contains cls (String ((Ascii (false, false, true, false, false, true,
       false, false)), (String ((Ascii (true, true, false, true, true, true,
       true, false)), EmptyString))))
  then (match token_parse cls with
        | NoRef -> Ok cls
        | Parsed t ->
          bind (token_render fi root_params t st0) (fun pat ->
            let (v, _) = pat in raw_string v)
        | ParseError -> Err (EParse cls)
        | ParseFuel -> OutOfFuel)
  else Ok cls

type walker =
  node -> string list -> string list -> node -> ((node * string list) * node)
  res

(** val include_loop :
    nat -> ncfg -> cls_entry list -> walker -> string list -> string list ->
    string list -> string list -> node -> (string list * node) res **)

let rec include_loop fi cfg tbl recur self_loc loading cs seen0 root =
  match cs with
  | [] -> Ok (seen0, root)
  | c :: cs' ->
    bind (include_name fi root.n_params c) (fun name0 ->
      let name = abs_class_name self_loc name0 in
      if mem name seen0
      then include_loop fi cfg tbl recur self_loc loading cs' seen0 root
      else if mem name loading
           then Err (EIncludeLoop (loading, name))
           else bind (read_class cfg tbl self_loc name) (fun r ->
                  match r with
                  | Some cn ->
                    bind (recur cn seen0 (app loading (name :: [])) root)
                      (fun pat ->
                      let (p, root1) = pat in
                      let (_, seen1) = p in
                      include_loop fi cfg tbl recur self_loc loading cs'
                        (app seen1 (name :: [])) root1)
                  | None ->
                    include_loop fi cfg tbl recur self_loc loading cs' seen0
                      root))

(** val render_impl :
    nat -> nat -> ncfg -> cls_entry list -> node -> string list -> string
    list -> node -> ((node * string list) * node) res **)

let rec render_impl f fi cfg tbl self seen0 loading root =
  match f with
  | O -> OutOfFuel
  | S f' ->
    bind
      (include_loop fi cfg tbl (render_impl f' fi cfg tbl) self.n_loc loading
        self.n_classes seen0 root) (fun pat ->
      let (seen', root') = pat in
      bind (merge_into self root') (fun pat0 ->
        let (self', root'') = pat0 in Ok ((self', seen'), root'')))

type nmeta = { m_name : string; m_uri : string; m_parts : string list }

(** val as_reclass : ncfg -> nmeta -> mapping res **)

let as_reclass cfg meta =
  match meta.m_parts with
  | [] -> Err EMetaParts
  | part0 :: _ ->
    let parts =
      if (&&) cfg.c_compose cfg.c_literal_dots
      then split_on (Ascii (false, true, true, true, false, true, false,
             false)) meta.m_name
      else if starts_with_underscore part0
           then (last_seg meta.m_parts) :: []
           else meta.m_parts
    in
    let namedata =
      (mk_entry (VStr (String ((Ascii (false, true, true, false, false, true,
        true, false)), (String ((Ascii (true, false, true, false, true, true,
        true, false)), (String ((Ascii (false, false, true, true, false,
        true, true, false)), (String ((Ascii (false, false, true, true,
        false, true, true, false)), EmptyString))))))))) (VStr meta.m_name)
        false false) :: ((mk_entry (VStr (String ((Ascii (false, false,
                           false, false, true, true, true, false)), (String
                           ((Ascii (true, false, false, false, false, true,
                           true, false)), (String ((Ascii (false, true,
                           false, false, true, true, true, false)), (String
                           ((Ascii (false, false, true, false, true, true,
                           true, false)), (String ((Ascii (true, true, false,
                           false, true, true, true, false)),
                           EmptyString))))))))))) (VSeq
                           (map (fun x -> VStr x) parts)) false false) :: (
      (mk_entry (VStr (String ((Ascii (false, false, false, false, true,
        true, true, false)), (String ((Ascii (true, false, false, false,
        false, true, true, false)), (String ((Ascii (false, false, true,
        false, true, true, true, false)), (String ((Ascii (false, false,
        false, true, false, true, true, false)), EmptyString))))))))) (VStr
        (join (String ((Ascii (true, true, true, true, false, true, false,
          false)), EmptyString)) parts)) false false) :: ((mk_entry (VStr
                                                            (String ((Ascii
                                                            (true, true,
                                                            false, false,
                                                            true, true, true,
                                                            false)), (String
                                                            ((Ascii (false,
                                                            false, false,
                                                            true, false,
                                                            true, true,
                                                            false)), (String
                                                            ((Ascii (true,
                                                            true, true, true,
                                                            false, true,
                                                            true, false)),
                                                            (String ((Ascii
                                                            (false, true,
                                                            false, false,
                                                            true, true, true,
                                                            false)), (String
                                                            ((Ascii (false,
                                                            false, true,
                                                            false, true,
                                                            true, true,
                                                            false)),
                                                            EmptyString)))))))))))
                                                            (VStr
                                                            (last_seg parts))
                                                            false false) :: [])))
    in
    Ok
    ((mk_entry (VStr (String ((Ascii (true, false, true, false, false, true,
       true, false)), (String ((Ascii (false, true, true, true, false, true,
       true, false)), (String ((Ascii (false, true, true, false, true, true,
       true, false)), (String ((Ascii (true, false, false, true, false, true,
       true, false)), (String ((Ascii (false, true, false, false, true, true,
       true, false)), (String ((Ascii (true, true, true, true, false, true,
       true, false)), (String ((Ascii (false, true, true, true, false, true,
       true, false)), (String ((Ascii (true, false, true, true, false, true,
       true, false)), (String ((Ascii (true, false, true, false, false, true,
       true, false)), (String ((Ascii (false, true, true, true, false, true,
       true, false)), (String ((Ascii (false, false, true, false, true, true,
       true, false)), EmptyString))))))))))))))))))))))) (VStr (String
       ((Ascii (false, true, false, false, false, true, true, false)),
       (String ((Ascii (true, false, false, false, false, true, true,
       false)), (String ((Ascii (true, true, false, false, true, true, true,
       false)), (String ((Ascii (true, false, true, false, false, true, true,
       false)), EmptyString))))))))) false false) :: ((mk_entry (VStr (String
                                                        ((Ascii (false, true,
                                                        true, true, false,
                                                        true, true, false)),
                                                        (String ((Ascii
                                                        (true, false, false,
                                                        false, false, true,
                                                        true, false)),
                                                        (String ((Ascii
                                                        (true, false, true,
                                                        true, false, true,
                                                        true, false)),
                                                        (String ((Ascii
                                                        (true, false, true,
                                                        false, false, true,
                                                        true, false)),
                                                        EmptyString)))))))))
                                                        (VMap namedata) false
                                                        false) :: []))

(** val render_params : nat -> node -> node res **)

let render_params fi n0 =
  bind (render_with_self fi (VMap n0.n_params)) (fun v ->
    match v with
    | VMap m ->
      Ok { n_apps = n0.n_apps; n_classes = n0.n_classes; n_params = m;
        n_loc = n0.n_loc }
    | _ -> Err (ERenderNonMapping (variant v)))

(** val node_render :
    nat -> nat -> ncfg -> cls_entry list -> node -> nmeta -> node res **)

let node_render f fi cfg tbl n0 meta =
  bind (as_reclass cfg meta) (fun rc ->
    bind
      (m_insert [] (VStr (String ((Ascii (true, true, true, true, true,
        false, true, false)), (String ((Ascii (false, true, false, false,
        true, true, true, false)), (String ((Ascii (true, false, true, false,
        false, true, true, false)), (String ((Ascii (true, true, false,
        false, false, true, true, false)), (String ((Ascii (false, false,
        true, true, false, true, true, false)), (String ((Ascii (true, false,
        false, false, false, true, true, false)), (String ((Ascii (true,
        true, false, false, true, true, true, false)), (String ((Ascii (true,
        true, false, false, true, true, true, false)), (String ((Ascii (true,
        true, true, true, true, false, true, false)),
        EmptyString))))))))))))))))))) (VMap rc)) (fun p0 ->
      let base = { n_apps = r_empty; n_classes = n0.n_classes; n_params = p0;
        n_loc = [] }
      in
      bind (render_impl f fi cfg tbl base [] [] empty_node) (fun pat ->
        let (p, _) = pat in
        let (base1, _) = p in
        bind (merge_into n0 base1) (fun pat0 ->
          let (n1, _) = pat0 in render_params fi n1))))

type node_entry = { ne_name : string; ne_path : string list; ne_doc : yaml }

(** val find_node : string -> node_entry list -> node_entry option **)

let rec find_node n0 = function
| [] -> None
| e :: tbl' -> if eqb1 e.ne_name n0 then Some e else find_node n0 tbl'

type nodeinfo = { ni_node : string; ni_name : string; ni_uri : string;
                  ni_env : string; ni_apps : string list;
                  ni_classes : string list; ni_params : mapping }

(** val strip_ext_path : string list -> string list **)

let strip_ext_path p =
  match rev0 p with
  | [] -> []
  | f :: r -> app (rev0 r) ((fst (split_ext f)) :: [])

(** val render_node :
    nat -> nat -> ncfg -> string -> node_entry list -> cls_entry list ->
    string -> nodeinfo res **)

let render_node f fi cfg nodes_root ntbl ctbl name =
  match find_node name ntbl with
  | Some ne ->
    let uri =
      append (String ((Ascii (true, false, false, true, true, true, true,
        false)), (String ((Ascii (true, false, false, false, false, true,
        true, false)), (String ((Ascii (true, false, true, true, false, true,
        true, false)), (String ((Ascii (false, false, true, true, false,
        true, true, false)), (String ((Ascii (true, true, true, true, true,
        false, true, false)), (String ((Ascii (false, true, true, false,
        false, true, true, false)), (String ((Ascii (true, true, false,
        false, true, true, true, false)), (String ((Ascii (false, true,
        false, true, true, true, false, false)), (String ((Ascii (true, true,
        true, true, false, true, false, false)), (String ((Ascii (true, true,
        true, true, false, true, false, false)),
        EmptyString))))))))))))))))))))
        (append nodes_root
          (append (String ((Ascii (true, true, true, true, false, true,
            false, false)), EmptyString))
            (join (String ((Ascii (true, true, true, true, false, true,
              false, false)), EmptyString)) ne.ne_path)))
    in
    let parts =
      if cfg.c_compose
      then strip_ext_path ne.ne_path
      else if eqb1 name EmptyString then [] else name :: []
    in
    bind (node_of_yaml [] ne.ne_doc) (fun n0 ->
      bind
        (node_render f fi cfg ctbl n0 { m_name = name; m_uri = uri; m_parts =
          parts }) (fun n' -> Ok { ni_node = name; ni_name = name; ni_uri =
        uri; ni_env = (String ((Ascii (false, true, false, false, false,
        true, true, false)), (String ((Ascii (true, false, false, false,
        false, true, true, false)), (String ((Ascii (true, true, false,
        false, true, true, true, false)), (String ((Ascii (true, false, true,
        false, false, true, true, false)), EmptyString)))))))); ni_apps =
        n'.n_apps.r_items; ni_classes = n'.n_classes; ni_params =
        n'.n_params }))
  | None -> Err (EUnknownNode name)

(** val insert_sorted : string -> string list -> string list **)

let rec insert_sorted x l = match l with
| [] -> x :: []
| y :: l' -> if leb0 x y then x :: l else y :: (insert_sorted x l')

(** val sort_strings : string list -> string list **)

let sort_strings l =
  fold_right insert_sorted [] l

type index = (string * string list) list

(** val index_push : string -> string -> index -> index **)

let rec index_push k n0 = function
| [] -> (k, (n0 :: [])) :: []
| p :: ix' ->
  let (k', ns) = p in
  if eqb1 k' k
  then (k', (app ns (n0 :: []))) :: ix'
  else (k', ns) :: (index_push k n0 ix')

(** val index_sort : index -> index **)

let index_sort ix =
  map (fun pat -> let (k, ns) = pat in (k, (sort_strings ns))) ix

type inventory = { inv_apps : index; inv_classes : index;
                   inv_nodes : (string * nodeinfo) list }

(** val inv_step : inventory -> string -> nodeinfo -> inventory **)

let inv_step inv name info =
  let cls =
    fold_left (fun ix c -> index_push c name ix) info.ni_classes
      inv.inv_classes
  in
  let aps =
    fold_left (fun ix a -> index_push a name ix) info.ni_apps inv.inv_apps
  in
  { inv_apps = (index_sort aps); inv_classes = (index_sort cls); inv_nodes =
  (app inv.inv_nodes ((name, info) :: [])) }

(** val inventory_of :
    (string * nodeinfo res) list -> inventory -> inventory res **)

let rec inventory_of rs inv =
  match rs with
  | [] -> Ok inv
  | p :: rs' ->
    let (name, r) = p in
    (match r with
     | Ok info -> inventory_of rs' (inv_step inv name info)
     | Err e -> Err (ENodeFailed (name, e))
     | Panic s -> Panic s
     | OutOfFuel -> OutOfFuel)

(** val empty_inventory : inventory **)

let empty_inventory =
  { inv_apps = []; inv_classes = []; inv_nodes = [] }

(** val sorted_insert :
    string -> string -> (string * string) list -> (string * string) list **)

let rec sorted_insert k v l = match l with
| [] -> (k, v) :: []
| p :: l' ->
  let (k', v') = p in
  if eqb1 k k'
  then (k, v) :: l'
  else if ltb0 k k' then (k, v) :: l else (k', v') :: (sorted_insert k v l')

(** val spec_key : value -> string option **)

let spec_key = function
| VNull ->
  Some (String ((Ascii (false, true, true, true, false, true, true, false)),
    (String ((Ascii (true, false, true, false, true, true, true, false)),
    (String ((Ascii (false, false, true, true, false, true, true, false)),
    (String ((Ascii (false, false, true, true, false, true, true, false)),
    EmptyString))))))))
| VBool b ->
  if b
  then Some (String ((Ascii (false, false, true, false, true, true, true,
         false)), (String ((Ascii (false, true, false, false, true, true,
         true, false)), (String ((Ascii (true, false, true, false, true,
         true, true, false)), (String ((Ascii (true, false, true, false,
         false, true, true, false)), EmptyString))))))))
  else Some (String ((Ascii (false, true, true, false, false, true, true,
         false)), (String ((Ascii (true, false, false, false, false, true,
         true, false)), (String ((Ascii (false, false, true, true, false,
         true, true, false)), (String ((Ascii (true, true, false, false,
         true, true, true, false)), (String ((Ascii (true, false, true,
         false, false, true, true, false)), EmptyString))))))))))
| VStr s -> Some s
| VLit s -> Some s
| VNum n0 -> Some (num_display n0)
| _ -> None

(** val spec_num : num -> string **)

let spec_num = function
| NInt z0 -> z_to_string z0
| NFloat f ->
  (match f.fk with
   | FFinite -> f.f_json
   | _ -> json_string f.f_yaml)

(** val spec_json : value -> string option **)

let rec spec_json = function
| VNull ->
  Some (String ((Ascii (false, true, true, true, false, true, true, false)),
    (String ((Ascii (true, false, true, false, true, true, true, false)),
    (String ((Ascii (false, false, true, true, false, true, true, false)),
    (String ((Ascii (false, false, true, true, false, true, true, false)),
    EmptyString))))))))
| VBool b ->
  if b
  then Some (String ((Ascii (false, false, true, false, true, true, true,
         false)), (String ((Ascii (false, true, false, false, true, true,
         true, false)), (String ((Ascii (true, false, true, false, true,
         true, true, false)), (String ((Ascii (true, false, true, false,
         false, true, true, false)), EmptyString))))))))
  else Some (String ((Ascii (false, true, true, false, false, true, true,
         false)), (String ((Ascii (true, false, false, false, false, true,
         true, false)), (String ((Ascii (false, false, true, true, false,
         true, true, false)), (String ((Ascii (true, true, false, false,
         true, true, true, false)), (String ((Ascii (true, false, true,
         false, false, true, true, false)), EmptyString))))))))))
| VLit s -> Some (json_string s)
| VNum n0 -> Some (spec_num n0)
| VMap es ->
  option_map (fun kvs ->
    append (String ((Ascii (true, true, false, true, true, true, true,
      false)), EmptyString))
      (append
        (join (String ((Ascii (false, false, true, true, false, true, false,
          false)), EmptyString))
          (map (fun pat ->
            let (k, t) = pat in
            append (json_string k)
              (append (String ((Ascii (false, true, false, true, true, true,
                false, false)), EmptyString)) t)) kvs)) (String ((Ascii
        (true, false, true, true, true, true, true, false)), EmptyString))))
    (let rec go es0 acc0 =
       match es0 with
       | [] -> Some acc0
       | e :: es' ->
         let (p, _) = e in
         let (p0, _) = p in
         let (k, x) = p0 in
         (match spec_key k with
          | Some ks ->
            (match spec_json x with
             | Some t -> go es' (sorted_insert ks t acc0)
             | None -> None)
          | None -> None)
     in go es [])
| VSeq l ->
  option_map (fun body ->
    append (String ((Ascii (true, true, false, true, true, false, true,
      false)), EmptyString))
      (append body (String ((Ascii (true, false, true, true, true, false,
        true, false)), EmptyString))))
    (let rec go = function
     | [] -> Some EmptyString
     | x :: xs ->
       (match xs with
        | [] -> spec_json x
        | _ :: _ ->
          (match spec_json x with
           | Some a ->
             (match go xs with
              | Some b ->
                Some
                  (append a
                    (append (String ((Ascii (false, false, true, true, false,
                      true, false, false)), EmptyString)) b))
              | None -> None)
           | None -> None))
     in go l)
| _ -> None

(** val text_of : value -> string option **)

let text_of v = match v with
| VNull ->
  Some (String ((Ascii (false, true, true, true, false, false, true, false)),
    (String ((Ascii (true, true, true, true, false, true, true, false)),
    (String ((Ascii (false, true, true, true, false, true, true, false)),
    (String ((Ascii (true, false, true, false, false, true, true, false)),
    EmptyString))))))))
| VBool b ->
  if b
  then Some (String ((Ascii (false, false, true, false, true, false, true,
         false)), (String ((Ascii (false, true, false, false, true, true,
         true, false)), (String ((Ascii (true, false, true, false, true,
         true, true, false)), (String ((Ascii (true, false, true, false,
         false, true, true, false)), EmptyString))))))))
  else Some (String ((Ascii (false, true, true, false, false, false, true,
         false)), (String ((Ascii (true, false, false, false, false, true,
         true, false)), (String ((Ascii (false, false, true, true, false,
         true, true, false)), (String ((Ascii (true, true, false, false,
         true, true, true, false)), (String ((Ascii (true, false, true,
         false, false, true, true, false)), EmptyString))))))))))
| VStr _ -> None
| VLit s -> Some s
| VNum n0 -> Some (num_display n0)
| VList _ -> None
| _ -> spec_json v

type serr =
| SConst of value
| SConflict
| SPanic of site

type 'a sres =
| SOk of 'a
| SErr of serr
| SFuel

(** val sbind : 'a1 sres -> ('a1 -> 'a2 sres) -> 'a2 sres **)

let sbind r f =
  match r with
  | SOk a -> f a
  | SErr e -> SErr e
  | SFuel -> SFuel

type slot = { sl_key : value; sl_pending : yaml list; sl_const : bool }

type acc =
| ANull
| AScalar of value
| ASeq of yaml list
| AMaps of slot list

(** val key_of : yaml -> (value * prefix option) sres **)

let key_of = function
| YNull -> SOk (VNull, None)
| YBool b -> SOk ((VBool b), None)
| YNum n0 -> SOk ((VNum n0), None)
| YStr s -> SOk (strip_prefix (VStr s))
| YTagged (_, _) -> SErr (SPanic PYamlTagged)
| _ -> SErr SConflict

(** val slot_write :
    value -> prefix option -> yaml -> slot list -> slot list sres **)

let rec slot_write k p v = function
| [] ->
  SOk ({ sl_key = k; sl_pending = (v :: []); sl_const = (is_pconst p) } :: [])
| s :: rest ->
  if value_eqb s.sl_key k
  then if s.sl_const
       then SErr (SConst k)
       else SOk ({ sl_key = k; sl_pending =
              (if is_pover p then v :: [] else app s.sl_pending (v :: []));
              sl_const = (is_pconst p) } :: rest)
  else sbind (slot_write k p v rest) (fun r -> SOk (s :: r))

(** val collect : (yaml * yaml) list -> slot list -> slot list sres **)

let rec collect entries slots =
  match entries with
  | [] -> SOk slots
  | p :: rest ->
    let (k, v) = p in
    sbind (key_of k) (fun pat ->
      let (kv, p0) = pat in
      sbind (slot_write kv p0 v slots) (fun slots' -> collect rest slots'))

(** val scalar_of : yaml -> value option **)

let scalar_of = function
| YNull -> Some VNull
| YBool b -> Some (VBool b)
| YNum n0 -> Some (VNum n0)
| YStr s -> Some (VLit s)
| _ -> None

(** val combine : acc -> yaml -> acc sres **)

let combine a y = match y with
| YNull -> SOk ANull
| YSeq l ->
  (match a with
   | ANull -> SOk (ASeq l)
   | ASeq l0 -> SOk (ASeq (app l0 l))
   | _ -> SErr SConflict)
| YMap es ->
  (match a with
   | ANull -> sbind (collect es []) (fun s -> SOk (AMaps s))
   | AMaps slots -> sbind (collect es slots) (fun s -> SOk (AMaps s))
   | _ -> SErr SConflict)
| YTagged (_, _) -> SErr (SPanic PYamlTagged)
| _ ->
  (match a with
   | ANull ->
     (match scalar_of y with
      | Some v -> SOk (AScalar v)
      | None -> SErr SConflict)
   | AScalar _ ->
     (match scalar_of y with
      | Some v -> SOk (AScalar v)
      | None -> SErr SConflict)
   | _ -> SErr SConflict)

(** val combine_all : acc -> yaml list -> acc sres **)

let rec combine_all a = function
| [] -> SOk a
| y :: ys' -> sbind (combine a y) (fun a' -> combine_all a' ys')

(** val deep_merge : nat -> yaml list -> value sres **)

let rec deep_merge f ys =
  match f with
  | O -> SFuel
  | S f' ->
    sbind (combine_all ANull ys) (fun a ->
      match a with
      | ANull -> SOk VNull
      | AScalar v -> SOk v
      | ASeq l ->
        sbind
          (let rec go = function
           | [] -> SOk []
           | x :: xs ->
             sbind (deep_merge f' (x :: [])) (fun v ->
               sbind (go xs) (fun vs -> SOk (v :: vs)))
           in go l) (fun vs -> SOk (VSeq vs))
      | AMaps slots ->
        sbind
          (let rec go = function
           | [] -> SOk []
           | s :: rest ->
             sbind (deep_merge f' s.sl_pending) (fun v ->
               sbind (go rest) (fun es -> SOk ((((s.sl_key, v), false),
                 false) :: es)))
           in go slots) (fun es -> SOk (VMap es)))

type comp =
| CRoot
| CCur
| CParent
| CNormal of string

(** val comp_eqb : comp -> comp -> bool **)

let comp_eqb a b =
  match a with
  | CRoot -> (match b with
              | CRoot -> true
              | _ -> false)
  | CCur -> (match b with
             | CCur -> true
             | _ -> false)
  | CParent -> (match b with
                | CParent -> true
                | _ -> false)
  | CNormal x -> (match b with
                  | CNormal y -> eqb1 x y
                  | _ -> false)

(** val is_abs : string -> bool **)

let is_abs = function
| EmptyString -> false
| String (a, _) ->
  let Ascii (b, b0, b1, b2, b3, b4, b5, b6) = a in
  if b
  then if b0
       then if b1
            then if b2
                 then if b3
                      then false
                      else if b4
                           then if b5
                                then false
                                else if b6 then false else true
                           else false
                 else false
            else false
       else false
  else false

(** val components : string -> comp list **)

let components s =
  let segs =
    split_on (Ascii (true, true, true, true, false, true, false, false)) s
  in
  let body =
    let rec go l first =
      match l with
      | [] -> []
      | x :: l' ->
        if eqb1 x EmptyString
        then go l' first
        else if eqb1 x (String ((Ascii (false, true, true, true, false, true,
                  false, false)), EmptyString))
             then if first then CCur :: (go l' false) else go l' false
             else if eqb1 x (String ((Ascii (false, true, true, true, false,
                       true, false, false)), (String ((Ascii (false, true,
                       true, true, false, true, false, false)),
                       EmptyString))))
                  then CParent :: (go l' false)
                  else (CNormal x) :: (go l' false)
    in go
  in
  if is_abs s then CRoot :: (body segs false) else body segs true

(** val ends_with_slash : string -> bool **)

let rec ends_with_slash = function
| EmptyString -> false
| String (c, s') ->
  (match s' with
   | EmptyString ->
     eqb0 c (Ascii (true, true, true, true, false, true, false, false))
   | String (_, _) -> ends_with_slash s')

(** val path_push : string -> string -> string **)

let path_push base p =
  if is_abs p
  then p
  else if eqb1 base EmptyString
       then p
       else if ends_with_slash base
            then append base p
            else append base
                   (append (String ((Ascii (true, true, true, true, false,
                     true, false, false)), EmptyString)) p)

(** val cpop : comp list -> comp list **)

let cpop l =
  match rev0 l with
  | [] -> []
  | c :: r -> (match c with
               | CRoot -> l
               | _ -> rev0 r)

(** val comp_text : comp -> string **)

let comp_text = function
| CRoot ->
  String ((Ascii (true, true, true, true, false, true, false, false)),
    EmptyString)
| CCur ->
  String ((Ascii (false, true, true, true, false, true, false, false)),
    EmptyString)
| CParent ->
  String ((Ascii (false, true, true, true, false, true, false, false)),
    (String ((Ascii (false, true, true, true, false, true, false, false)),
    EmptyString)))
| CNormal s -> s

(** val print_comps : comp list -> string **)

let print_comps l = match l with
| [] ->
  join (String ((Ascii (true, true, true, true, false, true, false, false)),
    EmptyString)) (map comp_text l)
| c :: rest ->
  (match c with
   | CRoot ->
     append (String ((Ascii (true, true, true, true, false, true, false,
       false)), EmptyString))
       (join (String ((Ascii (true, true, true, true, false, true, false,
         false)), EmptyString)) (map comp_text rest))
   | _ ->
     join (String ((Ascii (true, true, true, true, false, true, false,
       false)), EmptyString)) (map comp_text l))

(** val to_lexical_normal : string -> bool -> string **)

let to_lexical_normal s preserve =
  let comps = components s in
  print_comps
    (let rec go l i norm =
       match l with
       | [] -> norm
       | c :: l' ->
         (match c with
          | CRoot -> go l' (S i) (app norm (c :: []))
          | CCur ->
            go l' (S i)
              (if (&&) (Nat.eqb i O) preserve
               then app norm (CCur :: [])
               else norm)
          | CParent -> go l' (S i) (cpop norm)
          | CNormal _ -> go l' (S i) (app norm (c :: [])))
     in go comps O [])

(** val comps_prefix : comp list -> comp list -> bool **)

let rec comps_prefix a b =
  match a with
  | [] -> true
  | x :: a' ->
    (match b with
     | [] -> false
     | y :: b' -> (&&) (comp_eqb x y) (comps_prefix a' b'))

(** val strip_trailing_slashes : nat -> string -> string **)

let rec strip_trailing_slashes fuel s =
  match fuel with
  | O -> s
  | S f ->
    if eqb1 s (String ((Ascii (true, true, true, true, false, true, false,
         false)), EmptyString))
    then s
    else (match rev0 (list_ascii_of_string s) with
          | [] -> s
          | c :: r ->
            if eqb0 c (Ascii (true, true, true, true, false, true, false,
                 false))
            then strip_trailing_slashes f (string_of_list_ascii (rev0 r))
            else s)

(** val last_is_normal : string -> bool **)

let last_is_normal s =
  match rev0 (components s) with
  | [] -> false
  | c :: _ -> (match c with
               | CNormal _ -> true
               | _ -> false)

(** val drop_last_segment : ascii list -> ascii list **)

let rec drop_last_segment l = match l with
| [] -> []
| c :: l' ->
  if eqb0 c (Ascii (true, true, true, true, false, true, false, false))
  then l
  else drop_last_segment l'

(** val parent_text : string -> string **)

let parent_text s =
  let s1 = strip_trailing_slashes (length0 s) s in
  let cut =
    string_of_list_ascii
      (rev0 (drop_last_segment (rev0 (list_ascii_of_string s1))))
  in
  strip_trailing_slashes (length0 cut) cut

(** val with_file_name : string -> string -> string **)

let with_file_name path name =
  if last_is_normal path
  then path_push (parent_text path) name
  else path_push path name

type config = { cf_inv : string; cf_nodes : string; cf_classes : string;
                cf_ignore : bool; cf_compose : bool;
                cf_reported : string list; cf_compiled : string list;
                cf_dots : bool }

(** val opt_default : string option -> string -> string **)

let opt_default o d =
  match o with
  | Some s -> s
  | None -> d

(** val config_new :
    string option -> string option -> string option -> bool option -> config
    res **)

let config_new inv nodes classes ign =
  match inv with
  | Some _ ->
    (match inv with
     | Some _ ->
       let i =
         opt_default inv (String ((Ascii (false, true, true, true, false,
           true, false, false)), EmptyString))
       in
       let npath =
         path_push i
           (opt_default nodes (String ((Ascii (false, true, true, true,
             false, true, true, false)), (String ((Ascii (true, true, true,
             true, false, true, true, false)), (String ((Ascii (false, false,
             true, false, false, true, true, false)), (String ((Ascii (true,
             false, true, false, false, true, true, false)), (String ((Ascii
             (true, true, false, false, true, true, true, false)),
             EmptyString)))))))))))
       in
       let cpath =
         path_push i
           (opt_default classes (String ((Ascii (true, true, false, false,
             false, true, true, false)), (String ((Ascii (false, false, true,
             true, false, true, true, false)), (String ((Ascii (true, false,
             false, false, false, true, true, false)), (String ((Ascii (true,
             true, false, false, true, true, true, false)), (String ((Ascii
             (true, true, false, false, true, true, true, false)), (String
             ((Ascii (true, false, true, false, false, true, true, false)),
             (String ((Ascii (true, true, false, false, true, true, true,
             false)), EmptyString)))))))))))))))
       in
       let nc = components npath in
       let cc = components cpath in
       if (||) (comps_prefix nc cc) (comps_prefix cc nc)
       then Err (EConfig (String ((Ascii (false, true, true, true, false,
              false, true, false)), (String ((Ascii (true, true, true, true,
              false, true, true, false)), (String ((Ascii (false, false,
              true, false, false, true, true, false)), (String ((Ascii (true,
              false, true, false, false, true, true, false)), (String ((Ascii
              (true, true, false, false, true, true, true, false)), (String
              ((Ascii (false, false, false, false, false, true, false,
              false)), (String ((Ascii (true, false, false, false, false,
              true, true, false)), (String ((Ascii (false, true, true, true,
              false, true, true, false)), (String ((Ascii (false, false,
              true, false, false, true, true, false)), (String ((Ascii
              (false, false, false, false, false, true, false, false)),
              (String ((Ascii (true, true, false, false, false, true, true,
              false)), (String ((Ascii (false, false, true, true, false,
              true, true, false)), (String ((Ascii (true, false, false,
              false, false, true, true, false)), (String ((Ascii (true, true,
              false, false, true, true, true, false)), (String ((Ascii (true,
              true, false, false, true, true, true, false)), (String ((Ascii
              (true, false, true, false, false, true, true, false)), (String
              ((Ascii (true, true, false, false, true, true, true, false)),
              (String ((Ascii (false, false, false, false, false, true,
              false, false)), (String ((Ascii (false, false, false, false,
              true, true, true, false)), (String ((Ascii (true, false, false,
              false, false, true, true, false)), (String ((Ascii (false,
              false, true, false, true, true, true, false)), (String ((Ascii
              (false, false, false, true, false, true, true, false)), (String
              ((Ascii (false, false, false, false, false, true, false,
              false)), (String ((Ascii (true, false, true, true, false, true,
              true, false)), (String ((Ascii (true, false, true, false, true,
              true, true, false)), (String ((Ascii (true, true, false, false,
              true, true, true, false)), (String ((Ascii (false, false, true,
              false, true, true, true, false)), (String ((Ascii (false,
              false, false, false, false, true, false, false)), (String
              ((Ascii (false, true, false, false, false, true, true, false)),
              (String ((Ascii (true, false, true, false, false, true, true,
              false)), (String ((Ascii (false, false, false, false, false,
              true, false, false)), (String ((Ascii (false, true, true, true,
              false, true, true, false)), (String ((Ascii (true, true, true,
              true, false, true, true, false)), (String ((Ascii (false, true,
              true, true, false, true, true, false)), (String ((Ascii (true,
              false, true, true, false, true, false, false)), (String ((Ascii
              (true, true, true, true, false, true, true, false)), (String
              ((Ascii (false, true, true, false, true, true, true, false)),
              (String ((Ascii (true, false, true, false, false, true, true,
              false)), (String ((Ascii (false, true, false, false, true,
              true, true, false)), (String ((Ascii (false, false, true, true,
              false, true, true, false)), (String ((Ascii (true, false,
              false, false, false, true, true, false)), (String ((Ascii
              (false, false, false, false, true, true, true, false)), (String
              ((Ascii (false, false, false, false, true, true, true, false)),
              (String ((Ascii (true, false, false, true, false, true, true,
              false)), (String ((Ascii (false, true, true, true, false, true,
              true, false)), (String ((Ascii (true, true, true, false, false,
              true, true, false)), (String ((Ascii (false, true, true, true,
              false, true, false, false)),
              EmptyString)))))))))))))))))))))))))))))))))))))))))))))))))))))))))))))))))))))))))))))))))))))))))))))))
       else Ok { cf_inv = i; cf_nodes = (to_lexical_normal npath true);
              cf_classes = (to_lexical_normal cpath true); cf_ignore =
              (match ign with
               | Some b -> b
               | None -> false); cf_compose = false; cf_reported = ((String
              ((Ascii (false, true, true, true, false, true, false, false)),
              (String ((Ascii (false, true, false, true, false, true, false,
              false)), EmptyString)))) :: []); cf_compiled = ((String ((Ascii
              (false, true, true, true, false, true, false, false)), (String
              ((Ascii (false, true, false, true, false, true, false, false)),
              EmptyString)))) :: []); cf_dots = false }
     | None ->
       (match classes with
        | Some _ ->
          let i =
            opt_default inv (String ((Ascii (false, true, true, true, false,
              true, false, false)), EmptyString))
          in
          let npath =
            path_push i
              (opt_default nodes (String ((Ascii (false, true, true, true,
                false, true, true, false)), (String ((Ascii (true, true,
                true, true, false, true, true, false)), (String ((Ascii
                (false, false, true, false, false, true, true, false)),
                (String ((Ascii (true, false, true, false, false, true, true,
                false)), (String ((Ascii (true, true, false, false, true,
                true, true, false)), EmptyString)))))))))))
          in
          let cpath =
            path_push i
              (opt_default classes (String ((Ascii (true, true, false, false,
                false, true, true, false)), (String ((Ascii (false, false,
                true, true, false, true, true, false)), (String ((Ascii
                (true, false, false, false, false, true, true, false)),
                (String ((Ascii (true, true, false, false, true, true, true,
                false)), (String ((Ascii (true, true, false, false, true,
                true, true, false)), (String ((Ascii (true, false, true,
                false, false, true, true, false)), (String ((Ascii (true,
                true, false, false, true, true, true, false)),
                EmptyString)))))))))))))))
          in
          let nc = components npath in
          let cc = components cpath in
          if (||) (comps_prefix nc cc) (comps_prefix cc nc)
          then Err (EConfig (String ((Ascii (false, true, true, true, false,
                 false, true, false)), (String ((Ascii (true, true, true,
                 true, false, true, true, false)), (String ((Ascii (false,
                 false, true, false, false, true, true, false)), (String
                 ((Ascii (true, false, true, false, false, true, true,
                 false)), (String ((Ascii (true, true, false, false, true,
                 true, true, false)), (String ((Ascii (false, false, false,
                 false, false, true, false, false)), (String ((Ascii (true,
                 false, false, false, false, true, true, false)), (String
                 ((Ascii (false, true, true, true, false, true, true,
                 false)), (String ((Ascii (false, false, true, false, false,
                 true, true, false)), (String ((Ascii (false, false, false,
                 false, false, true, false, false)), (String ((Ascii (true,
                 true, false, false, false, true, true, false)), (String
                 ((Ascii (false, false, true, true, false, true, true,
                 false)), (String ((Ascii (true, false, false, false, false,
                 true, true, false)), (String ((Ascii (true, true, false,
                 false, true, true, true, false)), (String ((Ascii (true,
                 true, false, false, true, true, true, false)), (String
                 ((Ascii (true, false, true, false, false, true, true,
                 false)), (String ((Ascii (true, true, false, false, true,
                 true, true, false)), (String ((Ascii (false, false, false,
                 false, false, true, false, false)), (String ((Ascii (false,
                 false, false, false, true, true, true, false)), (String
                 ((Ascii (true, false, false, false, false, true, true,
                 false)), (String ((Ascii (false, false, true, false, true,
                 true, true, false)), (String ((Ascii (false, false, false,
                 true, false, true, true, false)), (String ((Ascii (false,
                 false, false, false, false, true, false, false)), (String
                 ((Ascii (true, false, true, true, false, true, true,
                 false)), (String ((Ascii (true, false, true, false, true,
                 true, true, false)), (String ((Ascii (true, true, false,
                 false, true, true, true, false)), (String ((Ascii (false,
                 false, true, false, true, true, true, false)), (String
                 ((Ascii (false, false, false, false, false, true, false,
                 false)), (String ((Ascii (false, true, false, false, false,
                 true, true, false)), (String ((Ascii (true, false, true,
                 false, false, true, true, false)), (String ((Ascii (false,
                 false, false, false, false, true, false, false)), (String
                 ((Ascii (false, true, true, true, false, true, true,
                 false)), (String ((Ascii (true, true, true, true, false,
                 true, true, false)), (String ((Ascii (false, true, true,
                 true, false, true, true, false)), (String ((Ascii (true,
                 false, true, true, false, true, false, false)), (String
                 ((Ascii (true, true, true, true, false, true, true, false)),
                 (String ((Ascii (false, true, true, false, true, true, true,
                 false)), (String ((Ascii (true, false, true, false, false,
                 true, true, false)), (String ((Ascii (false, true, false,
                 false, true, true, true, false)), (String ((Ascii (false,
                 false, true, true, false, true, true, false)), (String
                 ((Ascii (true, false, false, false, false, true, true,
                 false)), (String ((Ascii (false, false, false, false, true,
                 true, true, false)), (String ((Ascii (false, false, false,
                 false, true, true, true, false)), (String ((Ascii (true,
                 false, false, true, false, true, true, false)), (String
                 ((Ascii (false, true, true, true, false, true, true,
                 false)), (String ((Ascii (true, true, true, false, false,
                 true, true, false)), (String ((Ascii (false, true, true,
                 true, false, true, false, false)),
                 EmptyString)))))))))))))))))))))))))))))))))))))))))))))))))))))))))))))))))))))))))))))))))))))))))))))))
          else Ok { cf_inv = i; cf_nodes = (to_lexical_normal npath true);
                 cf_classes = (to_lexical_normal cpath true); cf_ignore =
                 (match ign with
                  | Some b -> b
                  | None -> false); cf_compose = false; cf_reported =
                 ((String ((Ascii (false, true, true, true, false, true,
                 false, false)), (String ((Ascii (false, true, false, true,
                 false, true, false, false)), EmptyString)))) :: []);
                 cf_compiled = ((String ((Ascii (false, true, true, true,
                 false, true, false, false)), (String ((Ascii (false, true,
                 false, true, false, true, false, false)),
                 EmptyString)))) :: []); cf_dots = false }
        | None ->
          Err (EConfig (String ((Ascii (true, true, true, true, false, false,
            true, false)), (String ((Ascii (false, true, true, true, false,
            true, true, false)), (String ((Ascii (true, false, true, false,
            false, true, true, false)), (String ((Ascii (false, false, false,
            false, false, true, false, false)), (String ((Ascii (true, true,
            true, true, false, true, true, false)), (String ((Ascii (false,
            true, true, false, false, true, true, false)), (String ((Ascii
            (false, false, false, false, false, true, false, false)), (String
            ((Ascii (true, false, false, true, false, true, true, false)),
            (String ((Ascii (false, true, true, true, false, true, true,
            false)), (String ((Ascii (false, true, true, false, true, true,
            true, false)), (String ((Ascii (true, false, true, false, false,
            true, true, false)), (String ((Ascii (false, true, true, true,
            false, true, true, false)), (String ((Ascii (false, false, true,
            false, true, true, true, false)), (String ((Ascii (true, true,
            true, true, false, true, true, false)), (String ((Ascii (false,
            true, false, false, true, true, true, false)), (String ((Ascii
            (true, false, false, true, true, true, true, false)), (String
            ((Ascii (false, false, false, false, false, true, false, false)),
            (String ((Ascii (false, false, false, false, true, true, true,
            false)), (String ((Ascii (true, false, false, false, false, true,
            true, false)), (String ((Ascii (false, false, true, false, true,
            true, true, false)), (String ((Ascii (false, false, false, true,
            false, true, true, false)), (String ((Ascii (false, false, false,
            false, false, true, false, false)), (String ((Ascii (true, false,
            false, false, false, true, true, false)), (String ((Ascii (false,
            true, true, true, false, true, true, false)), (String ((Ascii
            (false, false, true, false, false, true, true, false)), (String
            ((Ascii (false, false, false, false, false, true, false, false)),
            (String ((Ascii (true, true, false, false, false, true, true,
            false)), (String ((Ascii (false, false, true, true, false, true,
            true, false)), (String ((Ascii (true, false, false, false, false,
            true, true, false)), (String ((Ascii (true, true, false, false,
            true, true, true, false)), (String ((Ascii (true, true, false,
            false, true, true, true, false)), (String ((Ascii (true, false,
            true, false, false, true, true, false)), (String ((Ascii (true,
            true, false, false, true, true, true, false)), (String ((Ascii
            (false, false, false, false, false, true, false, false)), (String
            ((Ascii (false, false, false, false, true, true, true, false)),
            (String ((Ascii (true, false, false, false, false, true, true,
            false)), (String ((Ascii (false, false, true, false, true, true,
            true, false)), (String ((Ascii (false, false, false, true, false,
            true, true, false)), (String ((Ascii (false, false, false, false,
            false, true, false, false)), (String ((Ascii (true, false, true,
            true, false, true, true, false)), (String ((Ascii (true, false,
            true, false, true, true, true, false)), (String ((Ascii (true,
            true, false, false, true, true, true, false)), (String ((Ascii
            (false, false, true, false, true, true, true, false)), (String
            ((Ascii (false, false, false, false, false, true, false, false)),
            (String ((Ascii (false, true, false, false, false, true, true,
            false)), (String ((Ascii (true, false, true, false, false, true,
            true, false)), (String ((Ascii (false, false, false, false,
            false, true, false, false)), (String ((Ascii (false, false,
            false, false, true, true, true, false)), (String ((Ascii (false,
            true, false, false, true, true, true, false)), (String ((Ascii
            (true, true, true, true, false, true, true, false)), (String
            ((Ascii (false, true, true, false, true, true, true, false)),
            (String ((Ascii (true, false, false, true, false, true, true,
            false)), (String ((Ascii (false, false, true, false, false, true,
            true, false)), (String ((Ascii (true, false, true, false, false,
            true, true, false)), (String ((Ascii (false, false, true, false,
            false, true, true, false)), (String ((Ascii (false, true, true,
            true, false, true, false, false)),
            EmptyString)))))))))))))))))))))))))))))))))))))))))))))))))))))))))))))))))))))))))))))))))))))))))))))))))))))))))))))))))))
  | None ->
    (match nodes with
     | Some _ ->
       (match inv with
        | Some _ ->
          let i =
            opt_default inv (String ((Ascii (false, true, true, true, false,
              true, false, false)), EmptyString))
          in
          let npath =
            path_push i
              (opt_default nodes (String ((Ascii (false, true, true, true,
                false, true, true, false)), (String ((Ascii (true, true,
                true, true, false, true, true, false)), (String ((Ascii
                (false, false, true, false, false, true, true, false)),
                (String ((Ascii (true, false, true, false, false, true, true,
                false)), (String ((Ascii (true, true, false, false, true,
                true, true, false)), EmptyString)))))))))))
          in
          let cpath =
            path_push i
              (opt_default classes (String ((Ascii (true, true, false, false,
                false, true, true, false)), (String ((Ascii (false, false,
                true, true, false, true, true, false)), (String ((Ascii
                (true, false, false, false, false, true, true, false)),
                (String ((Ascii (true, true, false, false, true, true, true,
                false)), (String ((Ascii (true, true, false, false, true,
                true, true, false)), (String ((Ascii (true, false, true,
                false, false, true, true, false)), (String ((Ascii (true,
                true, false, false, true, true, true, false)),
                EmptyString)))))))))))))))
          in
          let nc = components npath in
          let cc = components cpath in
          if (||) (comps_prefix nc cc) (comps_prefix cc nc)
          then Err (EConfig (String ((Ascii (false, true, true, true, false,
                 false, true, false)), (String ((Ascii (true, true, true,
                 true, false, true, true, false)), (String ((Ascii (false,
                 false, true, false, false, true, true, false)), (String
                 ((Ascii (true, false, true, false, false, true, true,
                 false)), (String ((Ascii (true, true, false, false, true,
                 true, true, false)), (String ((Ascii (false, false, false,
                 false, false, true, false, false)), (String ((Ascii (true,
                 false, false, false, false, true, true, false)), (String
                 ((Ascii (false, true, true, true, false, true, true,
                 false)), (String ((Ascii (false, false, true, false, false,
                 true, true, false)), (String ((Ascii (false, false, false,
                 false, false, true, false, false)), (String ((Ascii (true,
                 true, false, false, false, true, true, false)), (String
                 ((Ascii (false, false, true, true, false, true, true,
                 false)), (String ((Ascii (true, false, false, false, false,
                 true, true, false)), (String ((Ascii (true, true, false,
                 false, true, true, true, false)), (String ((Ascii (true,
                 true, false, false, true, true, true, false)), (String
                 ((Ascii (true, false, true, false, false, true, true,
                 false)), (String ((Ascii (true, true, false, false, true,
                 true, true, false)), (String ((Ascii (false, false, false,
                 false, false, true, false, false)), (String ((Ascii (false,
                 false, false, false, true, true, true, false)), (String
                 ((Ascii (true, false, false, false, false, true, true,
                 false)), (String ((Ascii (false, false, true, false, true,
                 true, true, false)), (String ((Ascii (false, false, false,
                 true, false, true, true, false)), (String ((Ascii (false,
                 false, false, false, false, true, false, false)), (String
                 ((Ascii (true, false, true, true, false, true, true,
                 false)), (String ((Ascii (true, false, true, false, true,
                 true, true, false)), (String ((Ascii (true, true, false,
                 false, true, true, true, false)), (String ((Ascii (false,
                 false, true, false, true, true, true, false)), (String
                 ((Ascii (false, false, false, false, false, true, false,
                 false)), (String ((Ascii (false, true, false, false, false,
                 true, true, false)), (String ((Ascii (true, false, true,
                 false, false, true, true, false)), (String ((Ascii (false,
                 false, false, false, false, true, false, false)), (String
                 ((Ascii (false, true, true, true, false, true, true,
                 false)), (String ((Ascii (true, true, true, true, false,
                 true, true, false)), (String ((Ascii (false, true, true,
                 true, false, true, true, false)), (String ((Ascii (true,
                 false, true, true, false, true, false, false)), (String
                 ((Ascii (true, true, true, true, false, true, true, false)),
                 (String ((Ascii (false, true, true, false, true, true, true,
                 false)), (String ((Ascii (true, false, true, false, false,
                 true, true, false)), (String ((Ascii (false, true, false,
                 false, true, true, true, false)), (String ((Ascii (false,
                 false, true, true, false, true, true, false)), (String
                 ((Ascii (true, false, false, false, false, true, true,
                 false)), (String ((Ascii (false, false, false, false, true,
                 true, true, false)), (String ((Ascii (false, false, false,
                 false, true, true, true, false)), (String ((Ascii (true,
                 false, false, true, false, true, true, false)), (String
                 ((Ascii (false, true, true, true, false, true, true,
                 false)), (String ((Ascii (true, true, true, false, false,
                 true, true, false)), (String ((Ascii (false, true, true,
                 true, false, true, false, false)),
                 EmptyString)))))))))))))))))))))))))))))))))))))))))))))))))))))))))))))))))))))))))))))))))))))))))))))))
          else Ok { cf_inv = i; cf_nodes = (to_lexical_normal npath true);
                 cf_classes = (to_lexical_normal cpath true); cf_ignore =
                 (match ign with
                  | Some b -> b
                  | None -> false); cf_compose = false; cf_reported =
                 ((String ((Ascii (false, true, true, true, false, true,
                 false, false)), (String ((Ascii (false, true, false, true,
                 false, true, false, false)), EmptyString)))) :: []);
                 cf_compiled = ((String ((Ascii (false, true, true, true,
                 false, true, false, false)), (String ((Ascii (false, true,
                 false, true, false, true, false, false)),
                 EmptyString)))) :: []); cf_dots = false }
        | None ->
          (match classes with
           | Some _ ->
             let i =
               opt_default inv (String ((Ascii (false, true, true, true,
                 false, true, false, false)), EmptyString))
             in
             let npath =
               path_push i
                 (opt_default nodes (String ((Ascii (false, true, true, true,
                   false, true, true, false)), (String ((Ascii (true, true,
                   true, true, false, true, true, false)), (String ((Ascii
                   (false, false, true, false, false, true, true, false)),
                   (String ((Ascii (true, false, true, false, false, true,
                   true, false)), (String ((Ascii (true, true, false, false,
                   true, true, true, false)), EmptyString)))))))))))
             in
             let cpath =
               path_push i
                 (opt_default classes (String ((Ascii (true, true, false,
                   false, false, true, true, false)), (String ((Ascii (false,
                   false, true, true, false, true, true, false)), (String
                   ((Ascii (true, false, false, false, false, true, true,
                   false)), (String ((Ascii (true, true, false, false, true,
                   true, true, false)), (String ((Ascii (true, true, false,
                   false, true, true, true, false)), (String ((Ascii (true,
                   false, true, false, false, true, true, false)), (String
                   ((Ascii (true, true, false, false, true, true, true,
                   false)), EmptyString)))))))))))))))
             in
             let nc = components npath in
             let cc = components cpath in
             if (||) (comps_prefix nc cc) (comps_prefix cc nc)
             then Err (EConfig (String ((Ascii (false, true, true, true,
                    false, false, true, false)), (String ((Ascii (true, true,
                    true, true, false, true, true, false)), (String ((Ascii
                    (false, false, true, false, false, true, true, false)),
                    (String ((Ascii (true, false, true, false, false, true,
                    true, false)), (String ((Ascii (true, true, false, false,
                    true, true, true, false)), (String ((Ascii (false, false,
                    false, false, false, true, false, false)), (String
                    ((Ascii (true, false, false, false, false, true, true,
                    false)), (String ((Ascii (false, true, true, true, false,
                    true, true, false)), (String ((Ascii (false, false, true,
                    false, false, true, true, false)), (String ((Ascii
                    (false, false, false, false, false, true, false, false)),
                    (String ((Ascii (true, true, false, false, false, true,
                    true, false)), (String ((Ascii (false, false, true, true,
                    false, true, true, false)), (String ((Ascii (true, false,
                    false, false, false, true, true, false)), (String ((Ascii
                    (true, true, false, false, true, true, true, false)),
                    (String ((Ascii (true, true, false, false, true, true,
                    true, false)), (String ((Ascii (true, false, true, false,
                    false, true, true, false)), (String ((Ascii (true, true,
                    false, false, true, true, true, false)), (String ((Ascii
                    (false, false, false, false, false, true, false, false)),
                    (String ((Ascii (false, false, false, false, true, true,
                    true, false)), (String ((Ascii (true, false, false,
                    false, false, true, true, false)), (String ((Ascii
                    (false, false, true, false, true, true, true, false)),
                    (String ((Ascii (false, false, false, true, false, true,
                    true, false)), (String ((Ascii (false, false, false,
                    false, false, true, false, false)), (String ((Ascii
                    (true, false, true, true, false, true, true, false)),
                    (String ((Ascii (true, false, true, false, true, true,
                    true, false)), (String ((Ascii (true, true, false, false,
                    true, true, true, false)), (String ((Ascii (false, false,
                    true, false, true, true, true, false)), (String ((Ascii
                    (false, false, false, false, false, true, false, false)),
                    (String ((Ascii (false, true, false, false, false, true,
                    true, false)), (String ((Ascii (true, false, true, false,
                    false, true, true, false)), (String ((Ascii (false,
                    false, false, false, false, true, false, false)), (String
                    ((Ascii (false, true, true, true, false, true, true,
                    false)), (String ((Ascii (true, true, true, true, false,
                    true, true, false)), (String ((Ascii (false, true, true,
                    true, false, true, true, false)), (String ((Ascii (true,
                    false, true, true, false, true, false, false)), (String
                    ((Ascii (true, true, true, true, false, true, true,
                    false)), (String ((Ascii (false, true, true, false, true,
                    true, true, false)), (String ((Ascii (true, false, true,
                    false, false, true, true, false)), (String ((Ascii
                    (false, true, false, false, true, true, true, false)),
                    (String ((Ascii (false, false, true, true, false, true,
                    true, false)), (String ((Ascii (true, false, false,
                    false, false, true, true, false)), (String ((Ascii
                    (false, false, false, false, true, true, true, false)),
                    (String ((Ascii (false, false, false, false, true, true,
                    true, false)), (String ((Ascii (true, false, false, true,
                    false, true, true, false)), (String ((Ascii (false, true,
                    true, true, false, true, true, false)), (String ((Ascii
                    (true, true, true, false, false, true, true, false)),
                    (String ((Ascii (false, true, true, true, false, true,
                    false, false)),
                    EmptyString)))))))))))))))))))))))))))))))))))))))))))))))))))))))))))))))))))))))))))))))))))))))))))))))
             else Ok { cf_inv = i; cf_nodes = (to_lexical_normal npath true);
                    cf_classes = (to_lexical_normal cpath true); cf_ignore =
                    (match ign with
                     | Some b -> b
                     | None -> false); cf_compose = false; cf_reported =
                    ((String ((Ascii (false, true, true, true, false, true,
                    false, false)), (String ((Ascii (false, true, false,
                    true, false, true, false, false)),
                    EmptyString)))) :: []); cf_compiled = ((String ((Ascii
                    (false, true, true, true, false, true, false, false)),
                    (String ((Ascii (false, true, false, true, false, true,
                    false, false)), EmptyString)))) :: []); cf_dots = false }
           | None ->
             Err (EConfig (String ((Ascii (true, true, true, true, false,
               false, true, false)), (String ((Ascii (false, true, true,
               true, false, true, true, false)), (String ((Ascii (true,
               false, true, false, false, true, true, false)), (String
               ((Ascii (false, false, false, false, false, true, false,
               false)), (String ((Ascii (true, true, true, true, false, true,
               true, false)), (String ((Ascii (false, true, true, false,
               false, true, true, false)), (String ((Ascii (false, false,
               false, false, false, true, false, false)), (String ((Ascii
               (true, false, false, true, false, true, true, false)), (String
               ((Ascii (false, true, true, true, false, true, true, false)),
               (String ((Ascii (false, true, true, false, true, true, true,
               false)), (String ((Ascii (true, false, true, false, false,
               true, true, false)), (String ((Ascii (false, true, true, true,
               false, true, true, false)), (String ((Ascii (false, false,
               true, false, true, true, true, false)), (String ((Ascii (true,
               true, true, true, false, true, true, false)), (String ((Ascii
               (false, true, false, false, true, true, true, false)), (String
               ((Ascii (true, false, false, true, true, true, true, false)),
               (String ((Ascii (false, false, false, false, false, true,
               false, false)), (String ((Ascii (false, false, false, false,
               true, true, true, false)), (String ((Ascii (true, false,
               false, false, false, true, true, false)), (String ((Ascii
               (false, false, true, false, true, true, true, false)), (String
               ((Ascii (false, false, false, true, false, true, true,
               false)), (String ((Ascii (false, false, false, false, false,
               true, false, false)), (String ((Ascii (true, false, false,
               false, false, true, true, false)), (String ((Ascii (false,
               true, true, true, false, true, true, false)), (String ((Ascii
               (false, false, true, false, false, true, true, false)),
               (String ((Ascii (false, false, false, false, false, true,
               false, false)), (String ((Ascii (true, true, false, false,
               false, true, true, false)), (String ((Ascii (false, false,
               true, true, false, true, true, false)), (String ((Ascii (true,
               false, false, false, false, true, true, false)), (String
               ((Ascii (true, true, false, false, true, true, true, false)),
               (String ((Ascii (true, true, false, false, true, true, true,
               false)), (String ((Ascii (true, false, true, false, false,
               true, true, false)), (String ((Ascii (true, true, false,
               false, true, true, true, false)), (String ((Ascii (false,
               false, false, false, false, true, false, false)), (String
               ((Ascii (false, false, false, false, true, true, true,
               false)), (String ((Ascii (true, false, false, false, false,
               true, true, false)), (String ((Ascii (false, false, true,
               false, true, true, true, false)), (String ((Ascii (false,
               false, false, true, false, true, true, false)), (String
               ((Ascii (false, false, false, false, false, true, false,
               false)), (String ((Ascii (true, false, true, true, false,
               true, true, false)), (String ((Ascii (true, false, true,
               false, true, true, true, false)), (String ((Ascii (true, true,
               false, false, true, true, true, false)), (String ((Ascii
               (false, false, true, false, true, true, true, false)), (String
               ((Ascii (false, false, false, false, false, true, false,
               false)), (String ((Ascii (false, true, false, false, false,
               true, true, false)), (String ((Ascii (true, false, true,
               false, false, true, true, false)), (String ((Ascii (false,
               false, false, false, false, true, false, false)), (String
               ((Ascii (false, false, false, false, true, true, true,
               false)), (String ((Ascii (false, true, false, false, true,
               true, true, false)), (String ((Ascii (true, true, true, true,
               false, true, true, false)), (String ((Ascii (false, true,
               true, false, true, true, true, false)), (String ((Ascii (true,
               false, false, true, false, true, true, false)), (String
               ((Ascii (false, false, true, false, false, true, true,
               false)), (String ((Ascii (true, false, true, false, false,
               true, true, false)), (String ((Ascii (false, false, true,
               false, false, true, true, false)), (String ((Ascii (false,
               true, true, true, false, true, false, false)),
               EmptyString)))))))))))))))))))))))))))))))))))))))))))))))))))))))))))))))))))))))))))))))))))))))))))))))))))))))))))))))))))
     | None ->
       Err (EConfig (String ((Ascii (true, true, true, true, false, false,
         true, false)), (String ((Ascii (false, true, true, true, false,
         true, true, false)), (String ((Ascii (true, false, true, false,
         false, true, true, false)), (String ((Ascii (false, false, false,
         false, false, true, false, false)), (String ((Ascii (true, true,
         true, true, false, true, true, false)), (String ((Ascii (false,
         true, true, false, false, true, true, false)), (String ((Ascii
         (false, false, false, false, false, true, false, false)), (String
         ((Ascii (true, false, false, true, false, true, true, false)),
         (String ((Ascii (false, true, true, true, false, true, true,
         false)), (String ((Ascii (false, true, true, false, true, true,
         true, false)), (String ((Ascii (true, false, true, false, false,
         true, true, false)), (String ((Ascii (false, true, true, true,
         false, true, true, false)), (String ((Ascii (false, false, true,
         false, true, true, true, false)), (String ((Ascii (true, true, true,
         true, false, true, true, false)), (String ((Ascii (false, true,
         false, false, true, true, true, false)), (String ((Ascii (true,
         false, false, true, true, true, true, false)), (String ((Ascii
         (false, false, false, false, false, true, false, false)), (String
         ((Ascii (false, false, false, false, true, true, true, false)),
         (String ((Ascii (true, false, false, false, false, true, true,
         false)), (String ((Ascii (false, false, true, false, true, true,
         true, false)), (String ((Ascii (false, false, false, true, false,
         true, true, false)), (String ((Ascii (false, false, false, false,
         false, true, false, false)), (String ((Ascii (true, false, false,
         false, false, true, true, false)), (String ((Ascii (false, true,
         true, true, false, true, true, false)), (String ((Ascii (false,
         false, true, false, false, true, true, false)), (String ((Ascii
         (false, false, false, false, false, true, false, false)), (String
         ((Ascii (false, true, true, true, false, true, true, false)),
         (String ((Ascii (true, true, true, true, false, true, true, false)),
         (String ((Ascii (false, false, true, false, false, true, true,
         false)), (String ((Ascii (true, false, true, false, false, true,
         true, false)), (String ((Ascii (true, true, false, false, true,
         true, true, false)), (String ((Ascii (false, false, false, false,
         false, true, false, false)), (String ((Ascii (false, false, false,
         false, true, true, true, false)), (String ((Ascii (true, false,
         false, false, false, true, true, false)), (String ((Ascii (false,
         false, true, false, true, true, true, false)), (String ((Ascii
         (false, false, false, true, false, true, true, false)), (String
         ((Ascii (false, false, false, false, false, true, false, false)),
         (String ((Ascii (true, false, true, true, false, true, true,
         false)), (String ((Ascii (true, false, true, false, true, true,
         true, false)), (String ((Ascii (true, true, false, false, true,
         true, true, false)), (String ((Ascii (false, false, true, false,
         true, true, true, false)), (String ((Ascii (false, false, false,
         false, false, true, false, false)), (String ((Ascii (false, true,
         false, false, false, true, true, false)), (String ((Ascii (true,
         false, true, false, false, true, true, false)), (String ((Ascii
         (false, false, false, false, false, true, false, false)), (String
         ((Ascii (false, false, false, false, true, true, true, false)),
         (String ((Ascii (false, true, false, false, true, true, true,
         false)), (String ((Ascii (true, true, true, true, false, true, true,
         false)), (String ((Ascii (false, true, true, false, true, true,
         true, false)), (String ((Ascii (true, false, false, true, false,
         true, true, false)), (String ((Ascii (false, false, true, false,
         false, true, true, false)), (String ((Ascii (true, false, true,
         false, false, true, true, false)), (String ((Ascii (false, false,
         true, false, false, true, true, false)), (String ((Ascii (false,
         true, true, true, false, true, false, false)),
         EmptyString))))))))))))))))))))))))))))))))))))))))))))))))))))))))))))))))))))))))))))))))))))))))))))))))))))))))))))))

(** val value_text : yaml -> string option **)

let value_text = function
| YNull ->
  Some (String ((Ascii (false, true, true, true, false, true, true, false)),
    (String ((Ascii (true, false, true, false, true, true, true, false)),
    (String ((Ascii (false, false, true, true, false, true, true, false)),
    (String ((Ascii (false, false, true, true, false, true, true, false)),
    EmptyString))))))))
| YBool b ->
  if b
  then Some (String ((Ascii (false, false, true, false, true, true, true,
         false)), (String ((Ascii (false, true, false, false, true, true,
         true, false)), (String ((Ascii (true, false, true, false, true,
         true, true, false)), (String ((Ascii (true, false, true, false,
         false, true, true, false)), EmptyString))))))))
  else Some (String ((Ascii (false, true, true, false, false, true, true,
         false)), (String ((Ascii (true, false, false, false, false, true,
         true, false)), (String ((Ascii (false, false, true, true, false,
         true, true, false)), (String ((Ascii (true, true, false, false,
         true, true, true, false)), (String ((Ascii (true, false, true,
         false, false, true, true, false)), EmptyString))))))))))
| YNum n0 -> Some (num_display n0)
| YStr s -> Some s
| _ -> None

(** val is_flag_name : string -> bool **)

let is_flag_name s =
  (||)
    ((||)
      (eqb1 s (String ((Ascii (true, true, false, false, false, true, true,
        false)), (String ((Ascii (true, true, true, true, false, true, true,
        false)), (String ((Ascii (true, false, true, true, false, true, true,
        false)), (String ((Ascii (false, false, false, false, true, true,
        true, false)), (String ((Ascii (true, true, true, true, false, true,
        true, false)), (String ((Ascii (true, true, false, false, true, true,
        true, false)), (String ((Ascii (true, false, true, false, false,
        true, true, false)), (String ((Ascii (true, false, true, true, false,
        true, false, false)), (String ((Ascii (false, true, true, true,
        false, true, true, false)), (String ((Ascii (true, true, true, true,
        false, true, true, false)), (String ((Ascii (false, false, true,
        false, false, true, true, false)), (String ((Ascii (true, false,
        true, false, false, true, true, false)), (String ((Ascii (true,
        false, true, true, false, true, false, false)), (String ((Ascii
        (false, true, true, true, false, true, true, false)), (String ((Ascii
        (true, false, false, false, false, true, true, false)), (String
        ((Ascii (true, false, true, true, false, true, true, false)), (String
        ((Ascii (true, false, true, false, false, true, true, false)),
        (String ((Ascii (true, false, true, true, false, true, false,
        false)), (String ((Ascii (false, false, true, true, false, true,
        true, false)), (String ((Ascii (true, false, false, true, false,
        true, true, false)), (String ((Ascii (false, false, true, false,
        true, true, true, false)), (String ((Ascii (true, false, true, false,
        false, true, true, false)), (String ((Ascii (false, true, false,
        false, true, true, true, false)), (String ((Ascii (true, false,
        false, false, false, true, true, false)), (String ((Ascii (false,
        false, true, true, false, true, true, false)), (String ((Ascii (true,
        false, true, true, false, true, false, false)), (String ((Ascii
        (false, false, true, false, false, true, true, false)), (String
        ((Ascii (true, true, true, true, false, true, true, false)), (String
        ((Ascii (false, false, true, false, true, true, true, false)),
        (String ((Ascii (true, true, false, false, true, true, true, false)),
        EmptyString)))))))))))))))))))))))))))))))))))))))))))))))))))))))))))))
      (eqb1 s (String ((Ascii (true, true, false, false, false, true, true,
        false)), (String ((Ascii (true, true, true, true, false, true, true,
        false)), (String ((Ascii (true, false, true, true, false, true, true,
        false)), (String ((Ascii (false, false, false, false, true, true,
        true, false)), (String ((Ascii (true, true, true, true, false, true,
        true, false)), (String ((Ascii (true, true, false, false, true, true,
        true, false)), (String ((Ascii (true, false, true, false, false,
        true, true, false)), (String ((Ascii (true, true, true, true, true,
        false, true, false)), (String ((Ascii (false, true, true, true,
        false, true, true, false)), (String ((Ascii (true, true, true, true,
        false, true, true, false)), (String ((Ascii (false, false, true,
        false, false, true, true, false)), (String ((Ascii (true, false,
        true, false, false, true, true, false)), (String ((Ascii (true, true,
        true, true, true, false, true, false)), (String ((Ascii (false, true,
        true, true, false, true, true, false)), (String ((Ascii (true, false,
        false, false, false, true, true, false)), (String ((Ascii (true,
        false, true, true, false, true, true, false)), (String ((Ascii (true,
        false, true, false, false, true, true, false)), (String ((Ascii
        (true, true, true, true, true, false, true, false)), (String ((Ascii
        (false, false, true, true, false, true, true, false)), (String
        ((Ascii (true, false, false, true, false, true, true, false)),
        (String ((Ascii (false, false, true, false, true, true, true,
        false)), (String ((Ascii (true, false, true, false, false, true,
        true, false)), (String ((Ascii (false, true, false, false, true,
        true, true, false)), (String ((Ascii (true, false, false, false,
        false, true, true, false)), (String ((Ascii (false, false, true,
        true, false, true, true, false)), (String ((Ascii (true, true, true,
        true, true, false, true, false)), (String ((Ascii (false, false,
        true, false, false, true, true, false)), (String ((Ascii (true, true,
        true, true, false, true, true, false)), (String ((Ascii (false,
        false, true, false, true, true, true, false)), (String ((Ascii (true,
        true, false, false, true, true, true, false)),
        EmptyString))))))))))))))))))))))))))))))))))))))))))))))))))))))))))))))
    (eqb1 s (String ((Ascii (true, true, false, false, false, false, true,
      false)), (String ((Ascii (true, true, true, true, false, true, true,
      false)), (String ((Ascii (true, false, true, true, false, true, true,
      false)), (String ((Ascii (false, false, false, false, true, true, true,
      false)), (String ((Ascii (true, true, true, true, false, true, true,
      false)), (String ((Ascii (true, true, false, false, true, true, true,
      false)), (String ((Ascii (true, false, true, false, false, true, true,
      false)), (String ((Ascii (false, true, true, true, false, false, true,
      false)), (String ((Ascii (true, true, true, true, false, true, true,
      false)), (String ((Ascii (false, false, true, false, false, true, true,
      false)), (String ((Ascii (true, false, true, false, false, true, true,
      false)), (String ((Ascii (false, true, true, true, false, false, true,
      false)), (String ((Ascii (true, false, false, false, false, true, true,
      false)), (String ((Ascii (true, false, true, true, false, true, true,
      false)), (String ((Ascii (true, false, true, false, false, true, true,
      false)), (String ((Ascii (false, false, true, true, false, false, true,
      false)), (String ((Ascii (true, false, false, true, false, true, true,
      false)), (String ((Ascii (false, false, true, false, true, true, true,
      false)), (String ((Ascii (true, false, true, false, false, true, true,
      false)), (String ((Ascii (false, true, false, false, true, true, true,
      false)), (String ((Ascii (true, false, false, false, false, true, true,
      false)), (String ((Ascii (false, false, true, true, false, true, true,
      false)), (String ((Ascii (false, false, true, false, false, false,
      true, false)), (String ((Ascii (true, true, true, true, false, true,
      true, false)), (String ((Ascii (false, false, true, false, true, true,
      true, false)), (String ((Ascii (true, true, false, false, true, true,
      true, false)),
      EmptyString)))))))))))))))))))))))))))))))))))))))))))))))))))))

(** val upd_nodes : config -> string -> config **)

let upd_nodes c v =
  { cf_inv = c.cf_inv; cf_nodes = v; cf_classes = c.cf_classes; cf_ignore =
    c.cf_ignore; cf_compose = c.cf_compose; cf_reported = c.cf_reported;
    cf_compiled = c.cf_compiled; cf_dots = c.cf_dots }

(** val upd_classes : config -> string -> config **)

let upd_classes c v =
  { cf_inv = c.cf_inv; cf_nodes = c.cf_nodes; cf_classes = v; cf_ignore =
    c.cf_ignore; cf_compose = c.cf_compose; cf_reported = c.cf_reported;
    cf_compiled = c.cf_compiled; cf_dots = c.cf_dots }

(** val upd_ignore : config -> bool -> config **)

let upd_ignore c v =
  { cf_inv = c.cf_inv; cf_nodes = c.cf_nodes; cf_classes = c.cf_classes;
    cf_ignore = v; cf_compose = c.cf_compose; cf_reported = c.cf_reported;
    cf_compiled = c.cf_compiled; cf_dots = c.cf_dots }

(** val upd_compose : config -> bool -> config **)

let upd_compose c v =
  { cf_inv = c.cf_inv; cf_nodes = c.cf_nodes; cf_classes = c.cf_classes;
    cf_ignore = c.cf_ignore; cf_compose = v; cf_reported = c.cf_reported;
    cf_compiled = c.cf_compiled; cf_dots = c.cf_dots }

(** val upd_reported : config -> string list -> config **)

let upd_reported c v =
  { cf_inv = c.cf_inv; cf_nodes = c.cf_nodes; cf_classes = c.cf_classes;
    cf_ignore = c.cf_ignore; cf_compose = c.cf_compose; cf_reported = v;
    cf_compiled = c.cf_compiled; cf_dots = c.cf_dots }

(** val upd_compiled : config -> string list -> config **)

let upd_compiled c v =
  { cf_inv = c.cf_inv; cf_nodes = c.cf_nodes; cf_classes = c.cf_classes;
    cf_ignore = c.cf_ignore; cf_compose = c.cf_compose; cf_reported =
    c.cf_reported; cf_compiled = v; cf_dots = c.cf_dots }

(** val upd_dots : config -> bool -> config **)

let upd_dots c v =
  { cf_inv = c.cf_inv; cf_nodes = c.cf_nodes; cf_classes = c.cf_classes;
    cf_ignore = c.cf_ignore; cf_compose = c.cf_compose; cf_reported =
    c.cf_reported; cf_compiled = c.cf_compiled; cf_dots = v }

(** val all_strings : yaml list -> string list option **)

let rec all_strings = function
| [] -> Some []
| y :: l' ->
  (match y with
   | YStr s -> option_map (fun x -> s :: x) (all_strings l')
   | _ -> None)

(** val set_option : config -> string -> string -> yaml -> config res **)

let set_option c cfg_path k v =
  if eqb1 k (String ((Ascii (false, true, true, true, false, true, true,
       false)), (String ((Ascii (true, true, true, true, false, true, true,
       false)), (String ((Ascii (false, false, true, false, false, true,
       true, false)), (String ((Ascii (true, false, true, false, false, true,
       true, false)), (String ((Ascii (true, true, false, false, true, true,
       true, false)), (String ((Ascii (true, true, true, true, true, false,
       true, false)), (String ((Ascii (true, false, true, false, true, true,
       true, false)), (String ((Ascii (false, true, false, false, true, true,
       true, false)), (String ((Ascii (true, false, false, true, false, true,
       true, false)), EmptyString))))))))))))))))))
  then (match value_text v with
        | Some t -> Ok (upd_nodes c (with_file_name cfg_path t))
        | None ->
          Err (EConfig (String ((Ascii (false, true, true, true, false, true,
            true, false)), (String ((Ascii (true, true, true, true, false,
            true, true, false)), (String ((Ascii (false, false, true, false,
            false, true, true, false)), (String ((Ascii (true, false, true,
            false, false, true, true, false)), (String ((Ascii (true, true,
            false, false, true, true, true, false)), (String ((Ascii (true,
            true, true, true, true, false, true, false)), (String ((Ascii
            (true, false, true, false, true, true, true, false)), (String
            ((Ascii (false, true, false, false, true, true, true, false)),
            (String ((Ascii (true, false, false, true, false, true, true,
            false)), EmptyString))))))))))))))))))))
  else if eqb1 k (String ((Ascii (true, true, false, false, false, true,
            true, false)), (String ((Ascii (false, false, true, true, false,
            true, true, false)), (String ((Ascii (true, false, false, false,
            false, true, true, false)), (String ((Ascii (true, true, false,
            false, true, true, true, false)), (String ((Ascii (true, true,
            false, false, true, true, true, false)), (String ((Ascii (true,
            false, true, false, false, true, true, false)), (String ((Ascii
            (true, true, false, false, true, true, true, false)), (String
            ((Ascii (true, true, true, true, true, false, true, false)),
            (String ((Ascii (true, false, true, false, true, true, true,
            false)), (String ((Ascii (false, true, false, false, true, true,
            true, false)), (String ((Ascii (true, false, false, true, false,
            true, true, false)), EmptyString))))))))))))))))))))))
       then (match value_text v with
             | Some t -> Ok (upd_classes c (with_file_name cfg_path t))
             | None ->
               Err (EConfig (String ((Ascii (true, true, false, false, false,
                 true, true, false)), (String ((Ascii (false, false, true,
                 true, false, true, true, false)), (String ((Ascii (true,
                 false, false, false, false, true, true, false)), (String
                 ((Ascii (true, true, false, false, true, true, true,
                 false)), (String ((Ascii (true, true, false, false, true,
                 true, true, false)), (String ((Ascii (true, false, true,
                 false, false, true, true, false)), (String ((Ascii (true,
                 true, false, false, true, true, true, false)), (String
                 ((Ascii (true, true, true, true, true, false, true, false)),
                 (String ((Ascii (true, false, true, false, true, true, true,
                 false)), (String ((Ascii (false, true, false, false, true,
                 true, true, false)), (String ((Ascii (true, false, false,
                 true, false, true, true, false)),
                 EmptyString))))))))))))))))))))))))
       else if eqb1 k (String ((Ascii (true, false, false, true, false, true,
                 true, false)), (String ((Ascii (true, true, true, false,
                 false, true, true, false)), (String ((Ascii (false, true,
                 true, true, false, true, true, false)), (String ((Ascii
                 (true, true, true, true, false, true, true, false)), (String
                 ((Ascii (false, true, false, false, true, true, true,
                 false)), (String ((Ascii (true, false, true, false, false,
                 true, true, false)), (String ((Ascii (true, true, true,
                 true, true, false, true, false)), (String ((Ascii (true,
                 true, false, false, false, true, true, false)), (String
                 ((Ascii (false, false, true, true, false, true, true,
                 false)), (String ((Ascii (true, false, false, false, false,
                 true, true, false)), (String ((Ascii (true, true, false,
                 false, true, true, true, false)), (String ((Ascii (true,
                 true, false, false, true, true, true, false)), (String
                 ((Ascii (true, true, true, true, true, false, true, false)),
                 (String ((Ascii (false, true, true, true, false, true, true,
                 false)), (String ((Ascii (true, true, true, true, false,
                 true, true, false)), (String ((Ascii (false, false, true,
                 false, true, true, true, false)), (String ((Ascii (false,
                 true, true, false, false, true, true, false)), (String
                 ((Ascii (true, true, true, true, false, true, true, false)),
                 (String ((Ascii (true, false, true, false, true, true, true,
                 false)), (String ((Ascii (false, true, true, true, false,
                 true, true, false)), (String ((Ascii (false, false, true,
                 false, false, true, true, false)),
                 EmptyString))))))))))))))))))))))))))))))))))))))))))
            then (match v with
                  | YBool b -> Ok (upd_ignore c b)
                  | _ ->
                    Err (EConfig (String ((Ascii (true, false, false, true,
                      false, true, true, false)), (String ((Ascii (true,
                      true, true, false, false, true, true, false)), (String
                      ((Ascii (false, true, true, true, false, true, true,
                      false)), (String ((Ascii (true, true, true, true,
                      false, true, true, false)), (String ((Ascii (false,
                      true, false, false, true, true, true, false)), (String
                      ((Ascii (true, false, true, false, false, true, true,
                      false)), (String ((Ascii (true, true, true, true, true,
                      false, true, false)), (String ((Ascii (true, true,
                      false, false, false, true, true, false)), (String
                      ((Ascii (false, false, true, true, false, true, true,
                      false)), (String ((Ascii (true, false, false, false,
                      false, true, true, false)), (String ((Ascii (true,
                      true, false, false, true, true, true, false)), (String
                      ((Ascii (true, true, false, false, true, true, true,
                      false)), (String ((Ascii (true, true, true, true, true,
                      false, true, false)), (String ((Ascii (false, true,
                      true, true, false, true, true, false)), (String ((Ascii
                      (true, true, true, true, false, true, true, false)),
                      (String ((Ascii (false, false, true, false, true, true,
                      true, false)), (String ((Ascii (false, true, true,
                      false, false, true, true, false)), (String ((Ascii
                      (true, true, true, true, false, true, true, false)),
                      (String ((Ascii (true, false, true, false, true, true,
                      true, false)), (String ((Ascii (false, true, true,
                      true, false, true, true, false)), (String ((Ascii
                      (false, false, true, false, false, true, true, false)),
                      EmptyString))))))))))))))))))))))))))))))))))))))))))))
            else if eqb1 k (String ((Ascii (true, false, false, true, false,
                      true, true, false)), (String ((Ascii (true, true, true,
                      false, false, true, true, false)), (String ((Ascii
                      (false, true, true, true, false, true, true, false)),
                      (String ((Ascii (true, true, true, true, false, true,
                      true, false)), (String ((Ascii (false, true, false,
                      false, true, true, true, false)), (String ((Ascii
                      (true, false, true, false, false, true, true, false)),
                      (String ((Ascii (true, true, true, true, true, false,
                      true, false)), (String ((Ascii (true, true, false,
                      false, false, true, true, false)), (String ((Ascii
                      (false, false, true, true, false, true, true, false)),
                      (String ((Ascii (true, false, false, false, false,
                      true, true, false)), (String ((Ascii (true, true,
                      false, false, true, true, true, false)), (String
                      ((Ascii (true, true, false, false, true, true, true,
                      false)), (String ((Ascii (true, true, true, true, true,
                      false, true, false)), (String ((Ascii (false, true,
                      true, true, false, true, true, false)), (String ((Ascii
                      (true, true, true, true, false, true, true, false)),
                      (String ((Ascii (false, false, true, false, true, true,
                      true, false)), (String ((Ascii (false, true, true,
                      false, false, true, true, false)), (String ((Ascii
                      (true, true, true, true, false, true, true, false)),
                      (String ((Ascii (true, false, true, false, true, true,
                      true, false)), (String ((Ascii (false, true, true,
                      true, false, true, true, false)), (String ((Ascii
                      (false, false, true, false, false, true, true, false)),
                      (String ((Ascii (true, true, true, true, true, false,
                      true, false)), (String ((Ascii (false, true, false,
                      false, true, true, true, false)), (String ((Ascii
                      (true, false, true, false, false, true, true, false)),
                      (String ((Ascii (true, true, true, false, false, true,
                      true, false)), (String ((Ascii (true, false, true,
                      false, false, true, true, false)), (String ((Ascii
                      (false, false, false, true, true, true, true, false)),
                      (String ((Ascii (false, false, false, false, true,
                      true, true, false)),
                      EmptyString))))))))))))))))))))))))))))))))))))))))))))))))))))))))
                 then (match v with
                       | YSeq l ->
                         (match all_strings l with
                          | Some ps -> Ok (upd_reported c ps)
                          | None ->
                            Err (EConfig (String ((Ascii (true, false, false,
                              true, false, true, true, false)), (String
                              ((Ascii (true, true, true, false, false, true,
                              true, false)), (String ((Ascii (false, true,
                              true, true, false, true, true, false)), (String
                              ((Ascii (true, true, true, true, false, true,
                              true, false)), (String ((Ascii (false, true,
                              false, false, true, true, true, false)),
                              (String ((Ascii (true, false, true, false,
                              false, true, true, false)), (String ((Ascii
                              (true, true, true, true, true, false, true,
                              false)), (String ((Ascii (true, true, false,
                              false, false, true, true, false)), (String
                              ((Ascii (false, false, true, true, false, true,
                              true, false)), (String ((Ascii (true, false,
                              false, false, false, true, true, false)),
                              (String ((Ascii (true, true, false, false,
                              true, true, true, false)), (String ((Ascii
                              (true, true, false, false, true, true, true,
                              false)), (String ((Ascii (true, true, true,
                              true, true, false, true, false)), (String
                              ((Ascii (false, true, true, true, false, true,
                              true, false)), (String ((Ascii (true, true,
                              true, true, false, true, true, false)), (String
                              ((Ascii (false, false, true, false, true, true,
                              true, false)), (String ((Ascii (false, true,
                              true, false, false, true, true, false)),
                              (String ((Ascii (true, true, true, true, false,
                              true, true, false)), (String ((Ascii (true,
                              false, true, false, true, true, true, false)),
                              (String ((Ascii (false, true, true, true,
                              false, true, true, false)), (String ((Ascii
                              (false, false, true, false, false, true, true,
                              false)), (String ((Ascii (true, true, true,
                              true, true, false, true, false)), (String
                              ((Ascii (false, true, false, false, true, true,
                              true, false)), (String ((Ascii (true, false,
                              true, false, false, true, true, false)),
                              (String ((Ascii (true, true, true, false,
                              false, true, true, false)), (String ((Ascii
                              (true, false, true, false, false, true, true,
                              false)), (String ((Ascii (false, false, false,
                              true, true, true, true, false)), (String
                              ((Ascii (false, false, false, false, true,
                              true, true, false)), (String ((Ascii (false,
                              false, false, false, false, true, false,
                              false)), (String ((Ascii (true, false, true,
                              false, false, true, true, false)), (String
                              ((Ascii (false, true, true, true, false, true,
                              true, false)), (String ((Ascii (false, false,
                              true, false, true, true, true, false)), (String
                              ((Ascii (false, true, false, false, true, true,
                              true, false)), (String ((Ascii (true, false,
                              false, true, true, true, true, false)),
                              EmptyString))))))))))))))))))))))))))))))))))))))))))))))))))))))))))))))))))))))
                       | _ ->
                         Err (EConfig (String ((Ascii (true, false, false,
                           true, false, true, true, false)), (String ((Ascii
                           (true, true, true, false, false, true, true,
                           false)), (String ((Ascii (false, true, true, true,
                           false, true, true, false)), (String ((Ascii (true,
                           true, true, true, false, true, true, false)),
                           (String ((Ascii (false, true, false, false, true,
                           true, true, false)), (String ((Ascii (true, false,
                           true, false, false, true, true, false)), (String
                           ((Ascii (true, true, true, true, true, false,
                           true, false)), (String ((Ascii (true, true, false,
                           false, false, true, true, false)), (String ((Ascii
                           (false, false, true, true, false, true, true,
                           false)), (String ((Ascii (true, false, false,
                           false, false, true, true, false)), (String ((Ascii
                           (true, true, false, false, true, true, true,
                           false)), (String ((Ascii (true, true, false,
                           false, true, true, true, false)), (String ((Ascii
                           (true, true, true, true, true, false, true,
                           false)), (String ((Ascii (false, true, true, true,
                           false, true, true, false)), (String ((Ascii (true,
                           true, true, true, false, true, true, false)),
                           (String ((Ascii (false, false, true, false, true,
                           true, true, false)), (String ((Ascii (false, true,
                           true, false, false, true, true, false)), (String
                           ((Ascii (true, true, true, true, false, true,
                           true, false)), (String ((Ascii (true, false, true,
                           false, true, true, true, false)), (String ((Ascii
                           (false, true, true, true, false, true, true,
                           false)), (String ((Ascii (false, false, true,
                           false, false, true, true, false)), (String ((Ascii
                           (true, true, true, true, true, false, true,
                           false)), (String ((Ascii (false, true, false,
                           false, true, true, true, false)), (String ((Ascii
                           (true, false, true, false, false, true, true,
                           false)), (String ((Ascii (true, true, true, false,
                           false, true, true, false)), (String ((Ascii (true,
                           false, true, false, false, true, true, false)),
                           (String ((Ascii (false, false, false, true, true,
                           true, true, false)), (String ((Ascii (false,
                           false, false, false, true, true, true, false)),
                           EmptyString))))))))))))))))))))))))))))))))))))))))))))))))))))))))))
                 else if eqb1 k (String ((Ascii (true, true, false, false,
                           false, true, true, false)), (String ((Ascii (true,
                           true, true, true, false, true, true, false)),
                           (String ((Ascii (true, false, true, true, false,
                           true, true, false)), (String ((Ascii (false,
                           false, false, false, true, true, true, false)),
                           (String ((Ascii (true, true, true, true, false,
                           true, true, false)), (String ((Ascii (true, true,
                           false, false, true, true, true, false)), (String
                           ((Ascii (true, false, true, false, false, true,
                           true, false)), (String ((Ascii (true, true, true,
                           true, true, false, true, false)), (String ((Ascii
                           (false, true, true, true, false, true, true,
                           false)), (String ((Ascii (true, true, true, true,
                           false, true, true, false)), (String ((Ascii
                           (false, false, true, false, false, true, true,
                           false)), (String ((Ascii (true, false, true,
                           false, false, true, true, false)), (String ((Ascii
                           (true, true, true, true, true, false, true,
                           false)), (String ((Ascii (false, true, true, true,
                           false, true, true, false)), (String ((Ascii (true,
                           false, false, false, false, true, true, false)),
                           (String ((Ascii (true, false, true, true, false,
                           true, true, false)), (String ((Ascii (true, false,
                           true, false, false, true, true, false)),
                           EmptyString))))))))))))))))))))))))))))))))))
                      then (match v with
                            | YBool b -> Ok (upd_compose c b)
                            | _ ->
                              Err (EConfig (String ((Ascii (true, true,
                                false, false, false, true, true, false)),
                                (String ((Ascii (true, true, true, true,
                                false, true, true, false)), (String ((Ascii
                                (true, false, true, true, false, true, true,
                                false)), (String ((Ascii (false, false,
                                false, false, true, true, true, false)),
                                (String ((Ascii (true, true, true, true,
                                false, true, true, false)), (String ((Ascii
                                (true, true, false, false, true, true, true,
                                false)), (String ((Ascii (true, false, true,
                                false, false, true, true, false)), (String
                                ((Ascii (true, true, true, true, true, false,
                                true, false)), (String ((Ascii (false, true,
                                true, true, false, true, true, false)),
                                (String ((Ascii (true, true, true, true,
                                false, true, true, false)), (String ((Ascii
                                (false, false, true, false, false, true,
                                true, false)), (String ((Ascii (true, false,
                                true, false, false, true, true, false)),
                                (String ((Ascii (true, true, true, true,
                                true, false, true, false)), (String ((Ascii
                                (false, true, true, true, false, true, true,
                                false)), (String ((Ascii (true, false, false,
                                false, false, true, true, false)), (String
                                ((Ascii (true, false, true, true, false,
                                true, true, false)), (String ((Ascii (true,
                                false, true, false, false, true, true,
                                false)),
                                EmptyString))))))))))))))))))))))))))))))))))))
                      else if eqb1 k (String ((Ascii (false, true, false,
                                false, true, true, true, false)), (String
                                ((Ascii (true, false, true, false, false,
                                true, true, false)), (String ((Ascii (true,
                                true, false, false, false, true, true,
                                false)), (String ((Ascii (false, false, true,
                                true, false, true, true, false)), (String
                                ((Ascii (true, false, false, false, false,
                                true, true, false)), (String ((Ascii (true,
                                true, false, false, true, true, true,
                                false)), (String ((Ascii (true, true, false,
                                false, true, true, true, false)), (String
                                ((Ascii (true, true, true, true, true, false,
                                true, false)), (String ((Ascii (false, true,
                                false, false, true, true, true, false)),
                                (String ((Ascii (true, true, false, false,
                                true, true, true, false)), (String ((Ascii
                                (true, true, true, true, true, false, true,
                                false)), (String ((Ascii (true, true, false,
                                false, false, true, true, false)), (String
                                ((Ascii (true, true, true, true, false, true,
                                true, false)), (String ((Ascii (true, false,
                                true, true, false, true, true, false)),
                                (String ((Ascii (false, false, false, false,
                                true, true, true, false)), (String ((Ascii
                                (true, false, false, false, false, true,
                                true, false)), (String ((Ascii (false, false,
                                true, false, true, true, true, false)),
                                (String ((Ascii (true, true, true, true,
                                true, false, true, false)), (String ((Ascii
                                (false, true, true, false, false, true, true,
                                false)), (String ((Ascii (false, false, true,
                                true, false, true, true, false)), (String
                                ((Ascii (true, false, false, false, false,
                                true, true, false)), (String ((Ascii (true,
                                true, true, false, false, true, true,
                                false)), (String ((Ascii (true, true, false,
                                false, true, true, true, false)),
                                EmptyString))))))))))))))))))))))))))))))))))))))))))))))
                           then (match v with
                                 | YSeq l ->
                                   (match all_strings l with
                                    | Some fs ->
                                      Ok
                                        (if existsb is_flag_name fs
                                         then upd_dots c true
                                         else c)
                                    | None ->
                                      Err (EConfig (String ((Ascii (true,
                                        true, false, false, false, true,
                                        true, false)), (String ((Ascii (true,
                                        true, true, true, false, true, true,
                                        false)), (String ((Ascii (true,
                                        false, true, true, false, true, true,
                                        false)), (String ((Ascii (false,
                                        false, false, false, true, true,
                                        true, false)), (String ((Ascii (true,
                                        false, false, false, false, true,
                                        true, false)), (String ((Ascii
                                        (false, false, true, false, true,
                                        true, true, false)), (String ((Ascii
                                        (false, false, false, false, false,
                                        true, false, false)), (String ((Ascii
                                        (false, true, true, false, false,
                                        true, true, false)), (String ((Ascii
                                        (false, false, true, true, false,
                                        true, true, false)), (String ((Ascii
                                        (true, false, false, false, false,
                                        true, true, false)), (String ((Ascii
                                        (true, true, true, false, false,
                                        true, true, false)), (String ((Ascii
                                        (false, false, false, false, false,
                                        true, false, false)), (String ((Ascii
                                        (true, false, true, false, false,
                                        true, true, false)), (String ((Ascii
                                        (false, true, true, true, false,
                                        true, true, false)), (String ((Ascii
                                        (false, false, true, false, true,
                                        true, true, false)), (String ((Ascii
                                        (false, true, false, false, true,
                                        true, true, false)), (String ((Ascii
                                        (true, false, false, true, true,
                                        true, true, false)),
                                        EmptyString))))))))))))))))))))))))))))))))))))
                                 | _ ->
                                   Err (EConfig (String ((Ascii (false, true,
                                     false, false, true, true, true, false)),
                                     (String ((Ascii (true, false, true,
                                     false, false, true, true, false)),
                                     (String ((Ascii (true, true, false,
                                     false, false, true, true, false)),
                                     (String ((Ascii (false, false, true,
                                     true, false, true, true, false)),
                                     (String ((Ascii (true, false, false,
                                     false, false, true, true, false)),
                                     (String ((Ascii (true, true, false,
                                     false, true, true, true, false)),
                                     (String ((Ascii (true, true, false,
                                     false, true, true, true, false)),
                                     (String ((Ascii (true, true, true, true,
                                     true, false, true, false)), (String
                                     ((Ascii (false, true, false, false,
                                     true, true, true, false)), (String
                                     ((Ascii (true, true, false, false, true,
                                     true, true, false)), (String ((Ascii
                                     (true, true, true, true, true, false,
                                     true, false)), (String ((Ascii (true,
                                     true, false, false, false, true, true,
                                     false)), (String ((Ascii (true, true,
                                     true, true, false, true, true, false)),
                                     (String ((Ascii (true, false, true,
                                     true, false, true, true, false)),
                                     (String ((Ascii (false, false, false,
                                     false, true, true, true, false)),
                                     (String ((Ascii (true, false, false,
                                     false, false, true, true, false)),
                                     (String ((Ascii (false, false, true,
                                     false, true, true, true, false)),
                                     (String ((Ascii (true, true, true, true,
                                     true, false, true, false)), (String
                                     ((Ascii (false, true, true, false,
                                     false, true, true, false)), (String
                                     ((Ascii (false, false, true, true,
                                     false, true, true, false)), (String
                                     ((Ascii (true, false, false, false,
                                     false, true, true, false)), (String
                                     ((Ascii (true, true, true, false, false,
                                     true, true, false)), (String ((Ascii
                                     (true, true, false, false, true, true,
                                     true, false)),
                                     EmptyString))))))))))))))))))))))))))))))))))))))))))))))))
                           else Ok c

(** val compile : (string -> bool) -> config -> config res **)

let compile compiles c =
  if forallb compiles c.cf_reported
  then Ok (upd_compiled c c.cf_reported)
  else Err (EConfig (String ((Ascii (false, false, false, false, true, true,
         true, false)), (String ((Ascii (true, false, false, false, false,
         true, true, false)), (String ((Ascii (false, false, true, false,
         true, true, true, false)), (String ((Ascii (false, false, true,
         false, true, true, true, false)), (String ((Ascii (true, false,
         true, false, false, true, true, false)), (String ((Ascii (false,
         true, false, false, true, true, true, false)), (String ((Ascii
         (false, true, true, true, false, true, true, false)), (String
         ((Ascii (false, false, false, false, false, true, false, false)),
         (String ((Ascii (false, false, true, false, false, true, true,
         false)), (String ((Ascii (true, true, true, true, false, true, true,
         false)), (String ((Ascii (true, false, true, false, false, true,
         true, false)), (String ((Ascii (true, true, false, false, true,
         true, true, false)), (String ((Ascii (false, false, false, false,
         false, true, false, false)), (String ((Ascii (false, true, true,
         true, false, true, true, false)), (String ((Ascii (true, true, true,
         true, false, true, true, false)), (String ((Ascii (false, false,
         true, false, true, true, true, false)), (String ((Ascii (false,
         false, false, false, false, true, false, false)), (String ((Ascii
         (true, true, false, false, false, true, true, false)), (String
         ((Ascii (true, true, true, true, false, true, true, false)), (String
         ((Ascii (true, false, true, true, false, true, true, false)),
         (String ((Ascii (false, false, false, false, true, true, true,
         false)), (String ((Ascii (true, false, false, true, false, true,
         true, false)), (String ((Ascii (false, false, true, true, false,
         true, true, false)), (String ((Ascii (true, false, true, false,
         false, true, true, false)),
         EmptyString)))))))))))))))))))))))))))))))))))))))))))))))))

(** val set_options :
    config -> string -> (string * yaml) list -> config res **)

let rec set_options c cfg_path = function
| [] -> Ok c
| p :: es' ->
  let (k, v) = p in
  bind (set_option c cfg_path k v) (fun c' -> set_options c' cfg_path es')

(** val load_from_file :
    (string -> bool) -> config -> string -> (string * yaml) list -> config res **)

let load_from_file compiles c file es =
  bind (set_options c (path_push c.cf_inv file) es) (fun c' ->
    compile compiles c')

(** val from_dict :
    (string -> bool) -> string -> (string * yaml) list -> config res **)

let from_dict compiles inv es =
  bind (config_new (Some inv) None None None) (fun c ->
    bind
      (set_options c
        (path_push inv (String ((Ascii (false, false, true, false, false,
          true, true, false)), (String ((Ascii (true, false, true, false,
          true, true, true, false)), (String ((Ascii (true, false, true,
          true, false, true, true, false)), (String ((Ascii (true, false,
          true, true, false, true, true, false)), (String ((Ascii (true,
          false, false, true, true, true, true, false)),
          EmptyString))))))))))) es) (fun c' -> compile compiles c'))

(** val set_regexp :
    (string -> bool) -> config -> string list -> config res **)

let set_regexp compiles c ps =
  compile compiles (upd_reported c ps)

(** val is_class_ignored :
    (string -> string -> bool) -> config -> string -> bool **)

let is_class_ignored matches c cls =
  (&&) c.cf_ignore (existsb (fun p -> matches p cls) c.cf_compiled)

type cop =
| ONew of string option * string option * string option * bool option
| OLoad of string * (string * yaml) list
| ODict of string * (string * yaml) list
| OSetRegexp of string list
| OSetIgnore of bool
| OSetCompose of bool
| OSetFlag
| OUnsetFlag
| OClearFlags

(** val cfg_step : (string -> bool) -> config -> cop -> config * bool **)

let cfg_step compiles c o =
  let keep = fun r -> match r with
                      | Ok c' -> (c', true)
                      | _ -> (c, false) in
  (match o with
   | ONew (i, n0, cl, g) -> keep (config_new i n0 cl g)
   | OLoad (f, es) -> keep (load_from_file compiles c f es)
   | ODict (i, es) -> keep (from_dict compiles i es)
   | OSetRegexp ps -> keep (set_regexp compiles c ps)
   | OSetIgnore b -> ((upd_ignore c b), true)
   | OSetCompose b -> ((upd_compose c b), true)
   | OSetFlag -> ((upd_dots c true), true)
   | _ -> ((upd_dots c false), true))

type pyobj =
| PyNone
| PyBool of bool
| PyInt of z
| PyFloat of ftoken
| PyStr of string
| PyList of pyobj list
| PyDict of (pyobj * pyobj) list

(** val py_int_of : pyobj -> z option **)

let py_int_of = function
| PyBool b -> if b then Some (Zpos XH) else Some Z0
| PyInt z0 -> Some z0
| _ -> None

(** val py_key_eqb : pyobj -> pyobj -> bool **)

let py_key_eqb a b =
  match py_int_of a with
  | Some x ->
    (match py_int_of b with
     | Some y -> Z.eqb x y
     | None ->
       (match a with
        | PyNone -> (match b with
                     | PyNone -> true
                     | _ -> false)
        | PyFloat x0 ->
          (match b with
           | PyFloat y ->
             (match x0.fk with
              | FNan -> false
              | _ -> ftoken_eqb x0 y)
           | _ -> false)
        | PyStr x0 -> (match b with
                       | PyStr y -> eqb1 x0 y
                       | _ -> false)
        | _ -> false))
  | None ->
    (match a with
     | PyNone -> (match b with
                  | PyNone -> true
                  | _ -> false)
     | PyFloat x ->
       (match b with
        | PyFloat y -> (match x.fk with
                        | FNan -> false
                        | _ -> ftoken_eqb x y)
        | _ -> false)
     | PyStr x -> (match b with
                   | PyStr y -> eqb1 x y
                   | _ -> false)
     | _ -> false)

(** val py_hashable : pyobj -> bool **)

let py_hashable = function
| PyList _ -> false
| PyDict _ -> false
| _ -> true

(** val py_set_item :
    (pyobj * pyobj) list -> pyobj -> pyobj -> (pyobj * pyobj) list **)

let rec py_set_item d k v =
  match d with
  | [] -> (k, v) :: []
  | p :: d' ->
    let (k', v') = p in
    if py_key_eqb k' k
    then (k', v) :: d'
    else (k', v') :: (py_set_item d' k v)

type 'a pyres =
| PyOk of 'a
| PyTypeError
| PyPanic

(** val pybind : 'a1 pyres -> ('a1 -> 'a2 pyres) -> 'a2 pyres **)

let pybind r f =
  match r with
  | PyOk a -> f a
  | PyTypeError -> PyTypeError
  | PyPanic -> PyPanic

(** val as_py_obj : value -> pyobj pyres **)

let rec as_py_obj = function
| VNull -> PyOk PyNone
| VBool b -> PyOk (PyBool b)
| VStr s -> PyOk (PyStr s)
| VLit s -> PyOk (PyStr s)
| VNum n0 ->
  (match n0 with
   | NInt z0 -> PyOk (PyInt z0)
   | NFloat f -> PyOk (PyFloat f))
| VMap es ->
  pybind
    (let rec go es0 acc0 =
       match es0 with
       | [] -> PyOk acc0
       | e :: es' ->
         let (p, _) = e in
         let (p0, _) = p in
         let (k, x) = p0 in
         pybind (as_py_obj k) (fun pk ->
           pybind (as_py_obj x) (fun pv ->
             if py_hashable pk
             then go es' (py_set_item acc0 pk pv)
             else PyTypeError))
     in go es []) (fun d -> PyOk (PyDict d))
| VSeq l ->
  pybind
    (let rec go = function
     | [] -> PyOk []
     | x :: xs ->
       pybind (as_py_obj x) (fun y ->
         pybind (go xs) (fun ys -> PyOk (y :: ys)))
     in go l) (fun l' -> PyOk (PyList l'))
| VList _ -> PyPanic

(** val run_fuel : nat **)

let run_fuel =
  Z.to_nat (Zpos (XO (XO (XO (XO (XO (XI (XO (XI (XI (XI (XI XH))))))))))))

(** val merge_layers : yaml list -> mapping res **)

let merge_layers ys =
  foldM (fun acc0 y ->
    bind (mapping_of_yaml y) (fun m -> mapping_merge acc0 m)) ys []

(** val run_merge : string list -> string **)

let run_merge = function
| [] ->
  String ((Ascii (false, true, false, false, false, true, true, false)),
    (String ((Ascii (true, false, false, false, false, true, true, false)),
    (String ((Ascii (false, false, true, false, false, true, true, false)),
    (String ((Ascii (true, true, false, false, false, true, true, false)),
    (String ((Ascii (true, false, false, false, false, true, true, false)),
    (String ((Ascii (true, true, false, false, true, true, true, false)),
    (String ((Ascii (true, false, true, false, false, true, true, false)),
    EmptyString)))))))))))))
| n0 :: ts' ->
  (match nat_of_string n0 with
   | Some n1 ->
     (match p_yamls n1 ts' with
      | Some p ->
        let (ys, l) = p in
        (match l with
         | [] -> canon_res (fun m -> canon true (VMap m)) (merge_layers ys)
         | _ :: _ ->
           String ((Ascii (false, true, false, false, false, true, true,
             false)), (String ((Ascii (true, false, false, false, false,
             true, true, false)), (String ((Ascii (false, false, true, false,
             false, true, true, false)), (String ((Ascii (true, true, false,
             false, false, true, true, false)), (String ((Ascii (true, false,
             false, false, false, true, true, false)), (String ((Ascii (true,
             true, false, false, true, true, true, false)), (String ((Ascii
             (true, false, true, false, false, true, true, false)),
             EmptyString))))))))))))))
      | None ->
        String ((Ascii (false, true, false, false, false, true, true,
          false)), (String ((Ascii (true, false, false, false, false, true,
          true, false)), (String ((Ascii (false, false, true, false, false,
          true, true, false)), (String ((Ascii (true, true, false, false,
          false, true, true, false)), (String ((Ascii (true, false, false,
          false, false, true, true, false)), (String ((Ascii (true, true,
          false, false, true, true, true, false)), (String ((Ascii (true,
          false, true, false, false, true, true, false)),
          EmptyString))))))))))))))
   | None ->
     String ((Ascii (false, true, false, false, false, true, true, false)),
       (String ((Ascii (true, false, false, false, false, true, true,
       false)), (String ((Ascii (false, false, true, false, false, true,
       true, false)), (String ((Ascii (true, true, false, false, false, true,
       true, false)), (String ((Ascii (true, false, false, false, false,
       true, true, false)), (String ((Ascii (true, true, false, false, true,
       true, true, false)), (String ((Ascii (true, false, true, false, false,
       true, true, false)), EmptyString))))))))))))))

(** val run_value : string list -> string **)

let run_value = function
| [] ->
  String ((Ascii (false, true, false, false, false, true, true, false)),
    (String ((Ascii (true, false, false, false, false, true, true, false)),
    (String ((Ascii (false, false, true, false, false, true, true, false)),
    (String ((Ascii (true, true, false, false, false, true, true, false)),
    (String ((Ascii (true, false, false, false, false, true, true, false)),
    (String ((Ascii (true, true, false, false, true, true, true, false)),
    (String ((Ascii (true, false, true, false, false, true, true, false)),
    EmptyString)))))))))))))
| n0 :: ts' ->
  (match nat_of_string n0 with
   | Some n1 ->
     (match p_yamls n1 ts' with
      | Some p ->
        let (ys, l) = p in
        (match l with
         | [] ->
           canon_res (canon false)
             (bind (merge_layers ys) (fun m ->
               render_with_self run_fuel (VMap m)))
         | _ :: _ ->
           String ((Ascii (false, true, false, false, false, true, true,
             false)), (String ((Ascii (true, false, false, false, false,
             true, true, false)), (String ((Ascii (false, false, true, false,
             false, true, true, false)), (String ((Ascii (true, true, false,
             false, false, true, true, false)), (String ((Ascii (true, false,
             false, false, false, true, true, false)), (String ((Ascii (true,
             true, false, false, true, true, true, false)), (String ((Ascii
             (true, false, true, false, false, true, true, false)),
             EmptyString))))))))))))))
      | None ->
        String ((Ascii (false, true, false, false, false, true, true,
          false)), (String ((Ascii (true, false, false, false, false, true,
          true, false)), (String ((Ascii (false, false, true, false, false,
          true, true, false)), (String ((Ascii (true, true, false, false,
          false, true, true, false)), (String ((Ascii (true, false, false,
          false, false, true, true, false)), (String ((Ascii (true, true,
          false, false, true, true, true, false)), (String ((Ascii (true,
          false, true, false, false, true, true, false)),
          EmptyString))))))))))))))
   | None ->
     String ((Ascii (false, true, false, false, false, true, true, false)),
       (String ((Ascii (true, false, false, false, false, true, true,
       false)), (String ((Ascii (false, false, true, false, false, true,
       true, false)), (String ((Ascii (true, true, false, false, false, true,
       true, false)), (String ((Ascii (true, false, false, false, false,
       true, true, false)), (String ((Ascii (true, true, false, false, true,
       true, true, false)), (String ((Ascii (true, false, true, false, false,
       true, true, false)), EmptyString))))))))))))))

(** val run_token : string list -> string **)

let run_token = function
| [] ->
  String ((Ascii (false, true, false, false, false, true, true, false)),
    (String ((Ascii (true, false, false, false, false, true, true, false)),
    (String ((Ascii (false, false, true, false, false, true, true, false)),
    (String ((Ascii (true, true, false, false, false, true, true, false)),
    (String ((Ascii (true, false, false, false, false, true, true, false)),
    (String ((Ascii (true, true, false, false, true, true, true, false)),
    (String ((Ascii (true, false, true, false, false, true, true, false)),
    EmptyString)))))))))))))
| s :: l ->
  (match s with
   | EmptyString ->
     String ((Ascii (false, true, false, false, false, true, true, false)),
       (String ((Ascii (true, false, false, false, false, true, true,
       false)), (String ((Ascii (false, false, true, false, false, true,
       true, false)), (String ((Ascii (true, true, false, false, false, true,
       true, false)), (String ((Ascii (true, false, false, false, false,
       true, true, false)), (String ((Ascii (true, true, false, false, true,
       true, true, false)), (String ((Ascii (true, false, true, false, false,
       true, true, false)), EmptyString)))))))))))))
   | String (a, h) ->
     let Ascii (b, b0, b1, b2, b3, b4, b5, b6) = a in
     if b
     then if b0
          then if b1
               then String ((Ascii (false, true, false, false, false, true,
                      true, false)), (String ((Ascii (true, false, false,
                      false, false, true, true, false)), (String ((Ascii
                      (false, false, true, false, false, true, true, false)),
                      (String ((Ascii (true, true, false, false, false, true,
                      true, false)), (String ((Ascii (true, false, false,
                      false, false, true, true, false)), (String ((Ascii
                      (true, true, false, false, true, true, true, false)),
                      (String ((Ascii (true, false, true, false, false, true,
                      true, false)), EmptyString)))))))))))))
               else if b2
                    then String ((Ascii (false, true, false, false, false,
                           true, true, false)), (String ((Ascii (true, false,
                           false, false, false, true, true, false)), (String
                           ((Ascii (false, false, true, false, false, true,
                           true, false)), (String ((Ascii (true, true, false,
                           false, false, true, true, false)), (String ((Ascii
                           (true, false, false, false, false, true, true,
                           false)), (String ((Ascii (true, true, false,
                           false, true, true, true, false)), (String ((Ascii
                           (true, false, true, false, false, true, true,
                           false)), EmptyString)))))))))))))
                    else if b3
                         then if b4
                              then String ((Ascii (false, true, false, false,
                                     false, true, true, false)), (String
                                     ((Ascii (true, false, false, false,
                                     false, true, true, false)), (String
                                     ((Ascii (false, false, true, false,
                                     false, true, true, false)), (String
                                     ((Ascii (true, true, false, false,
                                     false, true, true, false)), (String
                                     ((Ascii (true, false, false, false,
                                     false, true, true, false)), (String
                                     ((Ascii (true, true, false, false, true,
                                     true, true, false)), (String ((Ascii
                                     (true, false, true, false, false, true,
                                     true, false)), EmptyString)))))))))))))
                              else if b5
                                   then if b6
                                        then String ((Ascii (false, true,
                                               false, false, false, true,
                                               true, false)), (String ((Ascii
                                               (true, false, false, false,
                                               false, true, true, false)),
                                               (String ((Ascii (false, false,
                                               true, false, false, true,
                                               true, false)), (String ((Ascii
                                               (true, true, false, false,
                                               false, true, true, false)),
                                               (String ((Ascii (true, false,
                                               false, false, false, true,
                                               true, false)), (String ((Ascii
                                               (true, true, false, false,
                                               true, true, true, false)),
                                               (String ((Ascii (true, false,
                                               true, false, false, true,
                                               true, false)),
                                               EmptyString)))))))))))))
                                        else (match l with
                                              | [] ->
                                                (match unhex h with
                                                 | Some s0 ->
                                                   (match token_parse s0 with
                                                    | NoRef ->
                                                      String ((Ascii (false,
                                                        true, true, true,
                                                        false, true, true,
                                                        false)), (String
                                                        ((Ascii (true, true,
                                                        true, true, false,
                                                        true, true, false)),
                                                        (String ((Ascii
                                                        (false, true, true,
                                                        true, false, true,
                                                        true, false)),
                                                        (String ((Ascii
                                                        (true, false, true,
                                                        false, false, true,
                                                        true, false)),
                                                        EmptyString)))))))
                                                    | Parsed t ->
                                                      sp (String ((Ascii
                                                        (false, false, true,
                                                        false, true, true,
                                                        true, false)),
                                                        (String ((Ascii
                                                        (true, true, true,
                                                        true, false, true,
                                                        true, false)),
                                                        (String ((Ascii
                                                        (true, true, false,
                                                        true, false, true,
                                                        true, false)),
                                                        EmptyString))))))
                                                        (canon_token t)
                                                    | ParseError ->
                                                      String ((Ascii (false,
                                                        false, false, false,
                                                        true, true, true,
                                                        false)), (String
                                                        ((Ascii (true, false,
                                                        false, false, false,
                                                        true, true, false)),
                                                        (String ((Ascii
                                                        (false, true, false,
                                                        false, true, true,
                                                        true, false)),
                                                        (String ((Ascii
                                                        (true, true, false,
                                                        false, true, true,
                                                        true, false)),
                                                        (String ((Ascii
                                                        (true, false, true,
                                                        false, false, true,
                                                        true, false)),
                                                        (String ((Ascii
                                                        (true, false, true,
                                                        false, false, true,
                                                        true, false)),
                                                        (String ((Ascii
                                                        (false, true, false,
                                                        false, true, true,
                                                        true, false)),
                                                        (String ((Ascii
                                                        (false, true, false,
                                                        false, true, true,
                                                        true, false)),
                                                        EmptyString)))))))))))))))
                                                    | ParseFuel ->
                                                      String ((Ascii (false,
                                                        true, true, false,
                                                        false, true, true,
                                                        false)), (String
                                                        ((Ascii (true, false,
                                                        true, false, true,
                                                        true, true, false)),
                                                        (String ((Ascii
                                                        (true, false, true,
                                                        false, false, true,
                                                        true, false)),
                                                        (String ((Ascii
                                                        (false, false, true,
                                                        true, false, true,
                                                        true, false)),
                                                        EmptyString))))))))
                                                 | None ->
                                                   String ((Ascii (false,
                                                     true, false, false,
                                                     false, true, true,
                                                     false)), (String ((Ascii
                                                     (true, false, false,
                                                     false, false, true,
                                                     true, false)), (String
                                                     ((Ascii (false, false,
                                                     true, false, false,
                                                     true, true, false)),
                                                     (String ((Ascii (true,
                                                     true, false, false,
                                                     false, true, true,
                                                     false)), (String ((Ascii
                                                     (true, false, false,
                                                     false, false, true,
                                                     true, false)), (String
                                                     ((Ascii (true, true,
                                                     false, false, true,
                                                     true, true, false)),
                                                     (String ((Ascii (true,
                                                     false, true, false,
                                                     false, true, true,
                                                     false)),
                                                     EmptyString))))))))))))))
                                              | _ :: _ ->
                                                String ((Ascii (false, true,
                                                  false, false, false, true,
                                                  true, false)), (String
                                                  ((Ascii (true, false,
                                                  false, false, false, true,
                                                  true, false)), (String
                                                  ((Ascii (false, false,
                                                  true, false, false, true,
                                                  true, false)), (String
                                                  ((Ascii (true, true, false,
                                                  false, false, true, true,
                                                  false)), (String ((Ascii
                                                  (true, false, false, false,
                                                  false, true, true, false)),
                                                  (String ((Ascii (true,
                                                  true, false, false, true,
                                                  true, true, false)),
                                                  (String ((Ascii (true,
                                                  false, true, false, false,
                                                  true, true, false)),
                                                  EmptyString))))))))))))))
                                   else String ((Ascii (false, true, false,
                                          false, false, true, true, false)),
                                          (String ((Ascii (true, false,
                                          false, false, false, true, true,
                                          false)), (String ((Ascii (false,
                                          false, true, false, false, true,
                                          true, false)), (String ((Ascii
                                          (true, true, false, false, false,
                                          true, true, false)), (String
                                          ((Ascii (true, false, false, false,
                                          false, true, true, false)), (String
                                          ((Ascii (true, true, false, false,
                                          true, true, true, false)), (String
                                          ((Ascii (true, false, true, false,
                                          false, true, true, false)),
                                          EmptyString)))))))))))))
                         else String ((Ascii (false, true, false, false,
                                false, true, true, false)), (String ((Ascii
                                (true, false, false, false, false, true,
                                true, false)), (String ((Ascii (false, false,
                                true, false, false, true, true, false)),
                                (String ((Ascii (true, true, false, false,
                                false, true, true, false)), (String ((Ascii
                                (true, false, false, false, false, true,
                                true, false)), (String ((Ascii (true, true,
                                false, false, true, true, true, false)),
                                (String ((Ascii (true, false, true, false,
                                false, true, true, false)),
                                EmptyString)))))))))))))
          else String ((Ascii (false, true, false, false, false, true, true,
                 false)), (String ((Ascii (true, false, false, false, false,
                 true, true, false)), (String ((Ascii (false, false, true,
                 false, false, true, true, false)), (String ((Ascii (true,
                 true, false, false, false, true, true, false)), (String
                 ((Ascii (true, false, false, false, false, true, true,
                 false)), (String ((Ascii (true, true, false, false, true,
                 true, true, false)), (String ((Ascii (true, false, true,
                 false, false, true, true, false)), EmptyString)))))))))))))
     else String ((Ascii (false, true, false, false, false, true, true,
            false)), (String ((Ascii (true, false, false, false, false, true,
            true, false)), (String ((Ascii (false, false, true, false, false,
            true, true, false)), (String ((Ascii (true, true, false, false,
            false, true, true, false)), (String ((Ascii (true, false, false,
            false, false, true, true, false)), (String ((Ascii (true, true,
            false, false, true, true, true, false)), (String ((Ascii (true,
            false, true, false, false, true, true, false)),
            EmptyString))))))))))))))

(** val p_lists : nat -> string list -> string list list option **)

let rec p_lists n0 ts =
  match n0 with
  | O -> (match ts with
          | [] -> Some []
          | _ :: _ -> None)
  | S n' ->
    (match ts with
     | [] -> None
     | k :: ts1 ->
       (match nat_of_string k with
        | Some k0 ->
          (match p_strs k0 ts1 with
           | Some p ->
             let (l, ts2) = p in option_map (fun x -> l :: x) (p_lists n' ts2)
           | None -> None)
        | None -> None))

(** val canon_strs : string list -> string **)

let canon_strs l =
  append (nat_to_string (length l)) (hxs l)

(** val run_list : string list -> string **)

let run_list = function
| [] ->
  String ((Ascii (false, true, false, false, false, true, true, false)),
    (String ((Ascii (true, false, false, false, false, true, true, false)),
    (String ((Ascii (false, false, true, false, false, true, true, false)),
    (String ((Ascii (true, true, false, false, false, true, true, false)),
    (String ((Ascii (true, false, false, false, false, true, true, false)),
    (String ((Ascii (true, true, false, false, true, true, true, false)),
    (String ((Ascii (true, false, true, false, false, true, true, false)),
    EmptyString)))))))))))))
| kind :: l ->
  (match l with
   | [] ->
     String ((Ascii (false, true, false, false, false, true, true, false)),
       (String ((Ascii (true, false, false, false, false, true, true,
       false)), (String ((Ascii (false, false, true, false, false, true,
       true, false)), (String ((Ascii (true, true, false, false, false, true,
       true, false)), (String ((Ascii (true, false, false, false, false,
       true, true, false)), (String ((Ascii (true, true, false, false, true,
       true, true, false)), (String ((Ascii (true, false, true, false, false,
       true, true, false)), EmptyString)))))))))))))
   | n0 :: ts' ->
     (match nat_of_string n0 with
      | Some n1 ->
        (match p_lists n1 ts' with
         | Some ls ->
           if eqb1 kind (String ((Ascii (true, false, true, false, true,
                true, true, false)), EmptyString))
           then sp (String ((Ascii (true, true, true, true, false, true,
                  true, false)), (String ((Ascii (true, true, false, true,
                  false, true, true, false)), EmptyString))))
                  (canon_strs
                    (fold_left (fun acc0 l0 -> u_merge acc0 (u_from l0)) ls
                      []))
           else let r =
                  fold_left (fun acc0 l0 -> r_merge acc0 (r_from l0)) ls
                    r_empty
                in
                sp (String ((Ascii (true, true, true, true, false, true,
                  true, false)), (String ((Ascii (true, true, false, true,
                  false, true, true, false)), EmptyString))))
                  (sp (canon_strs r.r_items) (canon_strs r.r_negs))
         | None ->
           String ((Ascii (false, true, false, false, false, true, true,
             false)), (String ((Ascii (true, false, false, false, false,
             true, true, false)), (String ((Ascii (false, false, true, false,
             false, true, true, false)), (String ((Ascii (true, true, false,
             false, false, true, true, false)), (String ((Ascii (true, false,
             false, false, false, true, true, false)), (String ((Ascii (true,
             true, false, false, true, true, true, false)), (String ((Ascii
             (true, false, true, false, false, true, true, false)),
             EmptyString))))))))))))))
      | None ->
        String ((Ascii (false, true, false, false, false, true, true,
          false)), (String ((Ascii (true, false, false, false, false, true,
          true, false)), (String ((Ascii (false, false, true, false, false,
          true, true, false)), (String ((Ascii (true, true, false, false,
          false, true, true, false)), (String ((Ascii (true, false, false,
          false, false, true, true, false)), (String ((Ascii (true, true,
          false, false, true, true, true, false)), (String ((Ascii (true,
          false, true, false, false, true, true, false)),
          EmptyString)))))))))))))))

(** val tab : string **)

let tab =
  String ((ascii_of_N (Npos (XI (XO (XO XH))))), EmptyString)

(** val run_line : string -> string **)

let run_line line =
  match words line with
  | [] ->
    String ((Ascii (false, true, false, false, false, true, true, false)),
      (String ((Ascii (true, false, false, false, false, true, true, false)),
      (String ((Ascii (false, false, true, false, false, true, true, false)),
      (String ((Ascii (false, false, true, true, false, true, true, false)),
      (String ((Ascii (true, false, false, true, false, true, true, false)),
      (String ((Ascii (false, true, true, true, false, true, true, false)),
      (String ((Ascii (true, false, true, false, false, true, true, false)),
      EmptyString)))))))))))))
  | id :: l ->
    (match l with
     | [] ->
       String ((Ascii (false, true, false, false, false, true, true, false)),
         (String ((Ascii (true, false, false, false, false, true, true,
         false)), (String ((Ascii (false, false, true, false, false, true,
         true, false)), (String ((Ascii (false, false, true, true, false,
         true, true, false)), (String ((Ascii (true, false, false, true,
         false, true, true, false)), (String ((Ascii (false, true, true,
         true, false, true, true, false)), (String ((Ascii (true, false,
         true, false, false, true, true, false)), EmptyString)))))))))))))
     | mode :: ts ->
       append id
         (append tab
           (if eqb1 mode (String ((Ascii (true, false, true, true, false,
                 true, true, false)), (String ((Ascii (true, false, true,
                 false, false, true, true, false)), (String ((Ascii (false,
                 true, false, false, true, true, true, false)), (String
                 ((Ascii (true, true, true, false, false, true, true,
                 false)), (String ((Ascii (true, false, true, false, false,
                 true, true, false)), EmptyString))))))))))
            then run_merge ts
            else if eqb1 mode (String ((Ascii (false, true, true, false,
                      true, true, true, false)), (String ((Ascii (true,
                      false, false, false, false, true, true, false)),
                      (String ((Ascii (false, false, true, true, false, true,
                      true, false)), (String ((Ascii (true, false, true,
                      false, true, true, true, false)), (String ((Ascii
                      (true, false, true, false, false, true, true, false)),
                      EmptyString))))))))))
                 then run_value ts
                 else if eqb1 mode (String ((Ascii (false, false, true,
                           false, true, true, true, false)), (String ((Ascii
                           (true, true, true, true, false, true, true,
                           false)), (String ((Ascii (true, true, false, true,
                           false, true, true, false)), (String ((Ascii (true,
                           false, true, false, false, true, true, false)),
                           (String ((Ascii (false, true, true, true, false,
                           true, true, false)), EmptyString))))))))))
                      then run_token ts
                      else if eqb1 mode (String ((Ascii (false, false, true,
                                true, false, true, true, false)), (String
                                ((Ascii (true, false, false, true, false,
                                true, true, false)), (String ((Ascii (true,
                                true, false, false, true, true, true,
                                false)), (String ((Ascii (false, false, true,
                                false, true, true, true, false)),
                                EmptyString))))))))
                           then run_list ts
                           else String ((Ascii (false, true, false, false,
                                  false, true, true, false)), (String ((Ascii
                                  (true, false, false, false, false, true,
                                  true, false)), (String ((Ascii (false,
                                  false, true, false, false, true, true,
                                  false)), (String ((Ascii (true, false,
                                  true, true, false, true, true, false)),
                                  (String ((Ascii (true, true, true, true,
                                  false, true, true, false)), (String ((Ascii
                                  (false, false, true, false, false, true,
                                  true, false)), (String ((Ascii (true,
                                  false, true, false, false, true, true,
                                  false)), EmptyString))))))))))))))))

(** val inc_fuel : nat **)

let inc_fuel =
  S (S (S (S (S (S (S (S (S (S (S (S (S (S (S (S (S (S (S (S (S (S (S (S (S
    (S (S (S (S (S (S (S (S (S (S (S (S (S (S (S (S (S (S (S (S (S (S (S (S
    (S (S (S (S (S (S (S (S (S (S (S (S (S (S (S (S (S (S (S (S (S (S (S (S
    (S (S (S (S (S (S (S (S (S (S (S (S (S (S (S (S (S (S (S (S (S (S (S (S
    (S (S (S (S (S (S (S (S (S (S (S (S (S (S (S (S (S (S (S (S (S (S (S (S
    (S (S (S (S (S (S (S (S (S (S (S (S (S (S (S (S (S (S (S (S (S (S (S (S
    (S (S (S (S (S (S (S (S (S (S (S (S (S (S (S (S (S (S (S (S (S (S (S (S
    (S (S (S (S (S (S (S (S (S (S (S (S (S (S (S (S (S (S (S (S (S (S (S (S
    (S (S (S (S (S (S (S
    O)))))))))))))))))))))))))))))))))))))))))))))))))))))))))))))))))))))))))))))))))))))))))))))))))))))))))))))))))))))))))))))))))))))))))))))))))))))))))))))))))))))))))))))))))))))))))))))))))))))))

(** val p_bool : string -> bool option **)

let p_bool t =
  if eqb1 t (String ((Ascii (false, false, true, false, true, false, true,
       false)), EmptyString))
  then Some true
  else if eqb1 t (String ((Ascii (false, true, true, false, false, false,
            true, false)), EmptyString))
       then Some false
       else None

(** val p_file :
    string list -> ((string list * yaml option) * string list) option **)

let p_file = function
| [] -> None
| k :: ts1 ->
  (match nat_of_string k with
   | Some k0 ->
     (match p_strs k0 ts1 with
      | Some p ->
        let (path, ts2) = p in
        (match ts2 with
         | [] ->
           (match p_yaml (S (length ts2)) ts2 with
            | Some p0 -> let (y, ts3) = p0 in Some ((path, (Some y)), ts3)
            | None -> None)
         | s :: ts3 ->
           (match s with
            | EmptyString ->
              (match p_yaml (S (length ts2)) ts2 with
               | Some p0 -> let (y, ts4) = p0 in Some ((path, (Some y)), ts4)
               | None -> None)
            | String (a, s0) ->
              let Ascii (b, b0, b1, b2, b3, b4, b5, b6) = a in
              if b
              then if b0
                   then if b1
                        then (match p_yaml (S (length ts2)) ts2 with
                              | Some p0 ->
                                let (y, ts4) = p0 in
                                Some ((path, (Some y)), ts4)
                              | None -> None)
                        else if b2
                             then if b3
                                  then (match p_yaml (S (length ts2)) ts2 with
                                        | Some p0 ->
                                          let (y, ts4) = p0 in
                                          Some ((path, (Some y)), ts4)
                                        | None -> None)
                                  else if b4
                                       then (match p_yaml (S (length ts2)) ts2 with
                                             | Some p0 ->
                                               let (y, ts4) = p0 in
                                               Some ((path, (Some y)), ts4)
                                             | None -> None)
                                       else if b5
                                            then if b6
                                                 then (match p_yaml (S
                                                               (length ts2))
                                                               ts2 with
                                                       | Some p0 ->
                                                         let (y, ts4) = p0 in
                                                         Some ((path, (Some
                                                         y)), ts4)
                                                       | None -> None)
                                                 else (match p_yaml (S
                                                               (length ts3))
                                                               ts3 with
                                                       | Some p0 ->
                                                         let (y, ts4) = p0 in
                                                         Some ((path, (Some
                                                         y)), ts4)
                                                       | None -> None)
                                            else (match p_yaml (S
                                                          (length ts2)) ts2 with
                                                  | Some p0 ->
                                                    let (y, ts4) = p0 in
                                                    Some ((path, (Some y)),
                                                    ts4)
                                                  | None -> None)
                             else (match p_yaml (S (length ts2)) ts2 with
                                   | Some p0 ->
                                     let (y, ts4) = p0 in
                                     Some ((path, (Some y)), ts4)
                                   | None -> None)
                   else if b1
                        then (match p_yaml (S (length ts2)) ts2 with
                              | Some p0 ->
                                let (y, ts4) = p0 in
                                Some ((path, (Some y)), ts4)
                              | None -> None)
                        else if b2
                             then if b3
                                  then if b4
                                       then (match p_yaml (S (length ts2)) ts2 with
                                             | Some p0 ->
                                               let (y, ts4) = p0 in
                                               Some ((path, (Some y)), ts4)
                                             | None -> None)
                                       else if b5
                                            then if b6
                                                 then (match p_yaml (S
                                                               (length ts2))
                                                               ts2 with
                                                       | Some p0 ->
                                                         let (y, ts4) = p0 in
                                                         Some ((path, (Some
                                                         y)), ts4)
                                                       | None -> None)
                                                 else Some ((path, None), ts3)
                                            else (match p_yaml (S
                                                          (length ts2)) ts2 with
                                                  | Some p0 ->
                                                    let (y, ts4) = p0 in
                                                    Some ((path, (Some y)),
                                                    ts4)
                                                  | None -> None)
                                  else (match p_yaml (S (length ts2)) ts2 with
                                        | Some p0 ->
                                          let (y, ts4) = p0 in
                                          Some ((path, (Some y)), ts4)
                                        | None -> None)
                             else (match p_yaml (S (length ts2)) ts2 with
                                   | Some p0 ->
                                     let (y, ts4) = p0 in
                                     Some ((path, (Some y)), ts4)
                                   | None -> None)
              else if b0
                   then if b1
                        then if b2
                             then (match p_yaml (S (length ts2)) ts2 with
                                   | Some p0 ->
                                     let (y, ts4) = p0 in
                                     Some ((path, (Some y)), ts4)
                                   | None -> None)
                             else if b3
                                  then if b4
                                       then (match p_yaml (S (length ts2)) ts2 with
                                             | Some p0 ->
                                               let (y, ts4) = p0 in
                                               Some ((path, (Some y)), ts4)
                                             | None -> None)
                                       else if b5
                                            then if b6
                                                 then (match p_yaml (S
                                                               (length ts2))
                                                               ts2 with
                                                       | Some p0 ->
                                                         let (y, ts4) = p0 in
                                                         Some ((path, (Some
                                                         y)), ts4)
                                                       | None -> None)
                                                 else (match s0 with
                                                       | EmptyString ->
                                                         (match p_yaml (S
                                                                  (length ts3))
                                                                  ts3 with
                                                          | Some p0 ->
                                                            let (y, ts4) = p0
                                                            in
                                                            Some ((path,
                                                            (Some y)), ts4)
                                                          | None -> None)
                                                       | String (_, _) ->
                                                         (match p_yaml (S
                                                                  (length ts2))
                                                                  ts2 with
                                                          | Some p0 ->
                                                            let (y, ts4) = p0
                                                            in
                                                            Some ((path,
                                                            (Some y)), ts4)
                                                          | None -> None))
                                            else (match p_yaml (S
                                                          (length ts2)) ts2 with
                                                  | Some p0 ->
                                                    let (y, ts4) = p0 in
                                                    Some ((path, (Some y)),
                                                    ts4)
                                                  | None -> None)
                                  else (match p_yaml (S (length ts2)) ts2 with
                                        | Some p0 ->
                                          let (y, ts4) = p0 in
                                          Some ((path, (Some y)), ts4)
                                        | None -> None)
                        else if b2
                             then (match p_yaml (S (length ts2)) ts2 with
                                   | Some p0 ->
                                     let (y, ts4) = p0 in
                                     Some ((path, (Some y)), ts4)
                                   | None -> None)
                             else if b4
                                  then (match p_yaml (S (length ts2)) ts2 with
                                        | Some p0 ->
                                          let (y, ts4) = p0 in
                                          Some ((path, (Some y)), ts4)
                                        | None -> None)
                                  else if b5
                                       then if b6
                                            then (match p_yaml (S
                                                          (length ts2)) ts2 with
                                                  | Some p0 ->
                                                    let (y, ts4) = p0 in
                                                    Some ((path, (Some y)),
                                                    ts4)
                                                  | None -> None)
                                            else Some ((path, (Some (YTagged
                                                   ((String ((Ascii (false,
                                                   false, true, true, true,
                                                   true, false, false)),
                                                   (String ((Ascii (false,
                                                   true, false, false, true,
                                                   true, true, false)),
                                                   (String ((Ascii (true,
                                                   false, false, false,
                                                   false, true, true,
                                                   false)), (String ((Ascii
                                                   (true, true, true, false,
                                                   true, true, true, false)),
                                                   (String ((Ascii (false,
                                                   true, true, true, true,
                                                   true, false, false)),
                                                   EmptyString)))))))))),
                                                   YNull)))), ts3)
                                       else (match p_yaml (S (length ts2)) ts2 with
                                             | Some p0 ->
                                               let (y, ts4) = p0 in
                                               Some ((path, (Some y)), ts4)
                                             | None -> None)
                   else if b1
                        then (match p_yaml (S (length ts2)) ts2 with
                              | Some p0 ->
                                let (y, ts4) = p0 in
                                Some ((path, (Some y)), ts4)
                              | None -> None)
                        else if b2
                             then if b3
                                  then if b4
                                       then (match p_yaml (S (length ts2)) ts2 with
                                             | Some p0 ->
                                               let (y, ts4) = p0 in
                                               Some ((path, (Some y)), ts4)
                                             | None -> None)
                                       else if b5
                                            then if b6
                                                 then (match p_yaml (S
                                                               (length ts2))
                                                               ts2 with
                                                       | Some p0 ->
                                                         let (y, ts4) = p0 in
                                                         Some ((path, (Some
                                                         y)), ts4)
                                                       | None -> None)
                                                 else (match s0 with
                                                       | EmptyString ->
                                                         Some ((path, None),
                                                           ts3)
                                                       | String (_, _) ->
                                                         (match p_yaml (S
                                                                  (length ts2))
                                                                  ts2 with
                                                          | Some p0 ->
                                                            let (y, ts4) = p0
                                                            in
                                                            Some ((path,
                                                            (Some y)), ts4)
                                                          | None -> None))
                                            else (match p_yaml (S
                                                          (length ts2)) ts2 with
                                                  | Some p0 ->
                                                    let (y, ts4) = p0 in
                                                    Some ((path, (Some y)),
                                                    ts4)
                                                  | None -> None)
                                  else (match p_yaml (S (length ts2)) ts2 with
                                        | Some p0 ->
                                          let (y, ts4) = p0 in
                                          Some ((path, (Some y)), ts4)
                                        | None -> None)
                             else (match p_yaml (S (length ts2)) ts2 with
                                   | Some p0 ->
                                     let (y, ts4) = p0 in
                                     Some ((path, (Some y)), ts4)
                                   | None -> None)))
      | None -> None)
   | None -> None)

(** val p_files :
    nat -> string list -> ((string list * yaml option) list * string list)
    option **)

let rec p_files n0 ts =
  match n0 with
  | O -> Some ([], ts)
  | S n' ->
    (match p_file ts with
     | Some p ->
       let (f, ts1) = p in
       (match p_files n' ts1 with
        | Some p0 -> let (fs, ts2) = p0 in Some ((f :: fs), ts2)
        | None -> None)
     | None -> None)

(** val p_count_files :
    string list -> ((string list * yaml option) list * string list) option **)

let p_count_files = function
| [] -> None
| n0 :: ts' ->
  (match nat_of_string n0 with
   | Some n1 -> p_files n1 ts'
   | None -> None)

(** val doc_of :
    string list -> (string list * yaml option) list -> yaml option option **)

let rec doc_of p = function
| [] -> None
| p0 :: fs ->
  let (q, d) = p0 in
  if list_eq_dec string_dec p q then Some d else doc_of p fs

(** val dir_doc : yaml **)

let dir_doc =
  YTagged ((String ((Ascii (false, false, true, true, true, true, false,
    false)), (String ((Ascii (false, false, true, false, false, true, true,
    false)), (String ((Ascii (true, false, false, true, false, true, true,
    false)), (String ((Ascii (false, true, false, false, true, true, true,
    false)), (String ((Ascii (true, false, true, false, false, true, true,
    false)), (String ((Ascii (true, true, false, false, false, true, true,
    false)), (String ((Ascii (false, false, true, false, true, true, true,
    false)), (String ((Ascii (true, true, true, true, false, true, true,
    false)), (String ((Ascii (false, true, false, false, true, true, true,
    false)), (String ((Ascii (true, false, false, true, true, true, true,
    false)), (String ((Ascii (false, true, true, true, true, true, false,
    false)), EmptyString)))))))))))))))))))))), YNull)

(** val file_paths : (string list * yaml option) list -> string list list **)

let file_paths files =
  map fst
    (filter (fun pat ->
      let (_, d) = pat in (match d with
                           | Some _ -> true
                           | None -> false)) files)

(** val class_table :
    (string list * yaml option) list -> cls_entry list res **)

let class_table files =
  bind (discover KClass true (file_paths files)) (fun es -> Ok
    (map (fun e -> { ce_name = e.en_name; ce_doc =
      (match doc_of e.en_path files with
       | Some o -> (match o with
                    | Some d -> d
                    | None -> dir_doc)
       | None -> dir_doc); ce_loc = e.en_loc }) es))

(** val node_table :
    bool -> (string list * yaml option) list -> node_entry list res **)

let node_table compose files =
  bind (discover KNode compose (file_paths files)) (fun es -> Ok
    (map (fun e -> { ne_name = e.en_name; ne_path = e.en_path; ne_doc =
      (match doc_of e.en_path files with
       | Some o -> (match o with
                    | Some d -> d
                    | None -> dir_doc)
       | None -> dir_doc) }) es))

(** val canon_nodeinfo : nodeinfo -> string **)

let canon_nodeinfo i =
  append (hx i.ni_node)
    (append (String ((Ascii (false, false, false, false, false, true, false,
      false)), EmptyString))
      (append (hx i.ni_name)
        (append (String ((Ascii (false, false, false, false, false, true,
          false, false)), EmptyString))
          (append (hx i.ni_uri)
            (append (String ((Ascii (false, false, false, false, false, true,
              false, false)), EmptyString))
              (append (hx i.ni_env)
                (append (String ((Ascii (false, false, false, false, false,
                  true, false, false)), (String ((Ascii (true, false, false,
                  false, false, false, true, false)), (String ((Ascii (false,
                  false, false, false, false, true, false, false)),
                  EmptyString))))))
                  (append (canon_strs i.ni_apps)
                    (append (String ((Ascii (false, false, false, false,
                      false, true, false, false)), (String ((Ascii (true,
                      true, false, false, false, false, true, false)),
                      (String ((Ascii (false, false, false, false, false,
                      true, false, false)), EmptyString))))))
                      (append (canon_strs i.ni_classes)
                        (append (String ((Ascii (false, false, false, false,
                          false, true, false, false)), (String ((Ascii
                          (false, false, false, false, true, false, true,
                          false)), (String ((Ascii (false, false, false,
                          false, false, true, false, false)),
                          EmptyString)))))) (canon false (VMap i.ni_params)))))))))))))

(** val sort_index : index -> index **)

let sort_index ix =
  fold_right (fun pat acc0 ->
    let (k, ns) = pat in
    let rec ins l = match l with
    | [] -> (k, ns) :: []
    | p :: l' ->
      let (k', ns') = p in
      if leb0 k k' then (k, ns) :: l else (k', ns') :: (ins l')
    in ins acc0) [] ix

(** val canon_index : index -> string **)

let rec canon_index = function
| [] -> EmptyString
| p :: ix' ->
  let (k, ns) = p in
  append (String ((Ascii (false, false, false, false, false, true, false,
    false)), EmptyString))
    (append (hx k)
      (append (String ((Ascii (false, false, false, false, false, true,
        false, false)), EmptyString))
        (append (canon_strs ns) (canon_index ix'))))

(** val lookup_info :
    string -> (string * nodeinfo) list -> nodeinfo option **)

let rec lookup_info n0 = function
| [] -> None
| p :: l' -> let (k, i) = p in if eqb1 k n0 then Some i else lookup_info n0 l'

(** val canon_inventory : inventory -> string **)

let canon_inventory inv =
  let nodes =
    map fst
      (sort_index
        (map (fun pat -> let (n0, _) = pat in (n0, [])) inv.inv_nodes))
  in
  append (String ((Ascii (true, false, false, false, false, false, true,
    false)), EmptyString))
    (append (canon_index (sort_index inv.inv_apps))
      (append (String ((Ascii (false, false, false, false, false, true,
        false, false)), (String ((Ascii (true, true, false, false, false,
        false, true, false)), EmptyString))))
        (append (canon_index (sort_index inv.inv_classes))
          (append (String ((Ascii (false, false, false, false, false, true,
            false, false)), (String ((Ascii (false, true, true, true, false,
            false, true, false)), (String ((Ascii (false, false, false,
            false, false, true, false, false)), EmptyString))))))
            (append (nat_to_string (length nodes))
              (concat_str
                (map (fun n0 ->
                  match lookup_info n0 inv.inv_nodes with
                  | Some i ->
                    append (String ((Ascii (false, false, false, false,
                      false, true, false, false)), (String ((Ascii (false,
                      false, true, true, true, true, true, false)), (String
                      ((Ascii (false, false, false, false, false, true,
                      false, false)), EmptyString)))))) (canon_nodeinfo i)
                  | None ->
                    String ((Ascii (false, false, false, false, false, true,
                      false, false)), (String ((Ascii (false, false, true,
                      true, true, true, true, false)), (String ((Ascii
                      (false, false, false, false, false, true, false,
                      false)), (String ((Ascii (true, true, true, true, true,
                      true, false, false)), EmptyString)))))))) nodes)))))))

(** val is_ok : 'a1 res -> bool **)

let is_ok = function
| Ok _ -> true
| _ -> false

(** val canon_inv_result : (string * nodeinfo res) list -> string **)

let canon_inv_result rs =
  match filter (fun pat -> let (_, r) = pat in negb (is_ok r)) rs with
  | [] -> canon_res canon_inventory (inventory_of rs empty_inventory)
  | p :: l ->
    append (String ((Ascii (true, false, true, false, false, true, true,
      false)), (String ((Ascii (false, true, false, false, true, true, true,
      false)), (String ((Ascii (false, true, false, false, true, true, true,
      false)), (String ((Ascii (true, true, false, false, true, true, true,
      false)), EmptyString))))))))
      (concat_str
        (map (fun pat ->
          let (n0, r) = pat in
          append (String ((Ascii (false, false, false, false, false, true,
            false, false)), (String ((Ascii (false, false, true, true, true,
            true, true, false)), (String ((Ascii (false, false, true, true,
            true, true, true, false)), (String ((Ascii (false, false, false,
            false, false, true, false, false)), EmptyString))))))))
            (append (hx n0)
              (append (String ((Ascii (false, false, false, false, false,
                true, false, false)), EmptyString))
                (canon_res (fun _ -> EmptyString) r)))) (p :: l)))

(** val run_inv : string list -> string **)

let run_inv = function
| [] ->
  String ((Ascii (false, true, false, false, false, true, true, false)),
    (String ((Ascii (true, false, false, false, false, true, true, false)),
    (String ((Ascii (false, false, true, false, false, true, true, false)),
    (String ((Ascii (true, true, false, false, false, true, true, false)),
    (String ((Ascii (true, false, false, false, false, true, true, false)),
    (String ((Ascii (true, true, false, false, true, true, true, false)),
    (String ((Ascii (true, false, true, false, false, true, true, false)),
    EmptyString)))))))))))))
| ig :: l ->
  (match l with
   | [] ->
     String ((Ascii (false, true, false, false, false, true, true, false)),
       (String ((Ascii (true, false, false, false, false, true, true,
       false)), (String ((Ascii (false, false, true, false, false, true,
       true, false)), (String ((Ascii (true, true, false, false, false, true,
       true, false)), (String ((Ascii (true, false, false, false, false,
       true, true, false)), (String ((Ascii (true, true, false, false, true,
       true, true, false)), (String ((Ascii (true, false, true, false, false,
       true, true, false)), EmptyString)))))))))))))
   | co :: l0 ->
     (match l0 with
      | [] ->
        String ((Ascii (false, true, false, false, false, true, true,
          false)), (String ((Ascii (true, false, false, false, false, true,
          true, false)), (String ((Ascii (false, false, true, false, false,
          true, true, false)), (String ((Ascii (true, true, false, false,
          false, true, true, false)), (String ((Ascii (true, false, false,
          false, false, true, true, false)), (String ((Ascii (true, true,
          false, false, true, true, true, false)), (String ((Ascii (true,
          false, true, false, false, true, true, false)),
          EmptyString)))))))))))))
      | dots :: ts1 ->
        (match p_bool ig with
         | Some ig0 ->
           (match p_bool co with
            | Some co0 ->
              (match p_bool dots with
               | Some dots0 ->
                 (match ts1 with
                  | [] ->
                    String ((Ascii (false, true, false, false, false, true,
                      true, false)), (String ((Ascii (true, false, false,
                      false, false, true, true, false)), (String ((Ascii
                      (false, false, true, false, false, true, true, false)),
                      (String ((Ascii (true, true, false, false, false, true,
                      true, false)), (String ((Ascii (true, false, false,
                      false, false, true, true, false)), (String ((Ascii
                      (true, true, false, false, true, true, true, false)),
                      (String ((Ascii (true, false, true, false, false, true,
                      true, false)), EmptyString)))))))))))))
                  | nm :: ts2 ->
                    (match nat_of_string nm with
                     | Some nm0 ->
                       (match match p_strs nm0 ts2 with
                              | Some p ->
                                let (_, l1) = p in
                                (match l1 with
                                 | [] -> None
                                 | k :: ts2' ->
                                   (match nat_of_string k with
                                    | Some k0 -> p_strs k0 ts2'
                                    | None -> None))
                              | None -> None with
                        | Some p ->
                          let (matches, ts3) = p in
                          (match p_count_files ts3 with
                           | Some p0 ->
                             let (cfiles, ts4) = p0 in
                             (match p_count_files ts4 with
                              | Some p1 ->
                                let (nfiles, ts5) = p1 in
                                let cfg = { c_ignore = ig0; c_matches =
                                  matches; c_compose = co0; c_literal_dots =
                                  dots0 }
                                in
                                let tables =
                                  bind (node_table co0 nfiles) (fun nt ->
                                    bind (class_table cfiles) (fun ct -> Ok
                                      (nt, ct)))
                                in
                                (match ts5 with
                                 | [] ->
                                   String ((Ascii (false, true, false, false,
                                     false, true, true, false)), (String
                                     ((Ascii (true, false, false, false,
                                     false, true, true, false)), (String
                                     ((Ascii (false, false, true, false,
                                     false, true, true, false)), (String
                                     ((Ascii (true, true, false, false,
                                     false, true, true, false)), (String
                                     ((Ascii (true, false, false, false,
                                     false, true, true, false)), (String
                                     ((Ascii (true, true, false, false, true,
                                     true, true, false)), (String ((Ascii
                                     (true, false, true, false, false, true,
                                     true, false)), EmptyString)))))))))))))
                                 | op :: l1 ->
                                   (match l1 with
                                    | [] ->
                                      if eqb1 op (String ((Ascii (true,
                                           false, false, false, false, true,
                                           true, false)), (String ((Ascii
                                           (false, false, true, true, false,
                                           true, true, false)), (String
                                           ((Ascii (false, false, true, true,
                                           false, true, true, false)),
                                           EmptyString))))))
                                      then (match tables with
                                            | Ok a ->
                                              let (nt, ct) = a in
                                              canon_inv_result
                                                (map (fun ne -> (ne.ne_name,
                                                  (render_node inc_fuel
                                                    run_fuel cfg (String
                                                    ((Ascii (false, false,
                                                    true, true, true, true,
                                                    false, false)), (String
                                                    ((Ascii (false, true,
                                                    true, true, false, false,
                                                    true, false)), (String
                                                    ((Ascii (true, true,
                                                    true, true, false, false,
                                                    true, false)), (String
                                                    ((Ascii (false, false,
                                                    true, false, false,
                                                    false, true, false)),
                                                    (String ((Ascii (true,
                                                    false, true, false,
                                                    false, false, true,
                                                    false)), (String ((Ascii
                                                    (true, true, false,
                                                    false, true, false, true,
                                                    false)), (String ((Ascii
                                                    (false, true, true, true,
                                                    true, true, false,
                                                    false)),
                                                    EmptyString))))))))))))))
                                                    nt ct ne.ne_name))) nt)
                                            | Err e ->
                                              canon_res (fun _ ->
                                                EmptyString) (Err e)
                                            | Panic s ->
                                              canon_res (fun _ ->
                                                EmptyString) (Panic s)
                                            | OutOfFuel ->
                                              String ((Ascii (false, true,
                                                true, false, false, true,
                                                true, false)), (String
                                                ((Ascii (true, false, true,
                                                false, true, true, true,
                                                false)), (String ((Ascii
                                                (true, false, true, false,
                                                false, true, true, false)),
                                                (String ((Ascii (false,
                                                false, true, true, false,
                                                true, true, false)),
                                                EmptyString))))))))
                                      else if eqb1 op (String ((Ascii (false,
                                                true, true, true, false,
                                                true, true, false)), (String
                                                ((Ascii (true, false, false,
                                                false, false, true, true,
                                                false)), (String ((Ascii
                                                (true, false, true, true,
                                                false, true, true, false)),
                                                (String ((Ascii (true, false,
                                                true, false, false, true,
                                                true, false)), (String
                                                ((Ascii (true, true, false,
                                                false, true, true, true,
                                                false)), EmptyString))))))))))
                                           then canon_res (fun pat ->
                                                  let (ns, cs) = pat in
                                                  append (String ((Ascii
                                                    (false, true, true, true,
                                                    false, false, true,
                                                    false)), EmptyString))
                                                    (append
                                                      (canon_index
                                                        (sort_index
                                                          (map (fun e ->
                                                            (e.en_name,
                                                            ((join (String
                                                               ((Ascii (true,
                                                               true, true,
                                                               true, false,
                                                               true, false,
                                                               false)),
                                                               EmptyString))
                                                               e.en_path) :: [])))
                                                            ns)))
                                                      (append (String ((Ascii
                                                        (false, false, false,
                                                        false, false, true,
                                                        false, false)),
                                                        (String ((Ascii
                                                        (true, true, false,
                                                        false, false, false,
                                                        true, false)),
                                                        EmptyString))))
                                                        (canon_index
                                                          (sort_index
                                                            (map (fun e ->
                                                              (e.en_name,
                                                              ((join (String
                                                                 ((Ascii
                                                                 (true, true,
                                                                 true, true,
                                                                 false, true,
                                                                 false,
                                                                 false)),
                                                                 EmptyString))
                                                                 e.en_path) :: [])))
                                                              cs))))))
                                                  (bind
                                                    (discover KNode co0
                                                      (file_paths nfiles))
                                                    (fun ns ->
                                                    bind
                                                      (discover KClass true
                                                        (file_paths cfiles))
                                                      (fun cs -> Ok (ns, cs))))
                                           else String ((Ascii (false, true,
                                                  false, false, false, true,
                                                  true, false)), (String
                                                  ((Ascii (true, false,
                                                  false, false, false, true,
                                                  true, false)), (String
                                                  ((Ascii (false, false,
                                                  true, false, false, true,
                                                  true, false)), (String
                                                  ((Ascii (true, true, false,
                                                  false, false, true, true,
                                                  false)), (String ((Ascii
                                                  (true, false, false, false,
                                                  false, true, true, false)),
                                                  (String ((Ascii (true,
                                                  true, false, false, true,
                                                  true, true, false)),
                                                  (String ((Ascii (true,
                                                  false, true, false, false,
                                                  true, true, false)),
                                                  EmptyString)))))))))))))
                                    | s :: l2 ->
                                      (match s with
                                       | EmptyString ->
                                         String ((Ascii (false, true, false,
                                           false, false, true, true, false)),
                                           (String ((Ascii (true, false,
                                           false, false, false, true, true,
                                           false)), (String ((Ascii (false,
                                           false, true, false, false, true,
                                           true, false)), (String ((Ascii
                                           (true, true, false, false, false,
                                           true, true, false)), (String
                                           ((Ascii (true, false, false,
                                           false, false, true, true, false)),
                                           (String ((Ascii (true, true,
                                           false, false, true, true, true,
                                           false)), (String ((Ascii (true,
                                           false, true, false, false, true,
                                           true, false)),
                                           EmptyString)))))))))))))
                                       | String (a, h) ->
                                         let Ascii (b, b0, b1, b2, b3, b4,
                                                    b5, b6) = a
                                         in
                                         if b
                                         then if b0
                                              then if b1
                                                   then String ((Ascii
                                                          (false, true,
                                                          false, false,
                                                          false, true, true,
                                                          false)), (String
                                                          ((Ascii (true,
                                                          false, false,
                                                          false, false, true,
                                                          true, false)),
                                                          (String ((Ascii
                                                          (false, false,
                                                          true, false, false,
                                                          true, true,
                                                          false)), (String
                                                          ((Ascii (true,
                                                          true, false, false,
                                                          false, true, true,
                                                          false)), (String
                                                          ((Ascii (true,
                                                          false, false,
                                                          false, false, true,
                                                          true, false)),
                                                          (String ((Ascii
                                                          (true, true, false,
                                                          false, true, true,
                                                          true, false)),
                                                          (String ((Ascii
                                                          (true, false, true,
                                                          false, false, true,
                                                          true, false)),
                                                          EmptyString)))))))))))))
                                                   else if b2
                                                        then String ((Ascii
                                                               (false, true,
                                                               false, false,
                                                               false, true,
                                                               true, false)),
                                                               (String
                                                               ((Ascii (true,
                                                               false, false,
                                                               false, false,
                                                               true, true,
                                                               false)),
                                                               (String
                                                               ((Ascii
                                                               (false, false,
                                                               true, false,
                                                               false, true,
                                                               true, false)),
                                                               (String
                                                               ((Ascii (true,
                                                               true, false,
                                                               false, false,
                                                               true, true,
                                                               false)),
                                                               (String
                                                               ((Ascii (true,
                                                               false, false,
                                                               false, false,
                                                               true, true,
                                                               false)),
                                                               (String
                                                               ((Ascii (true,
                                                               true, false,
                                                               false, true,
                                                               true, true,
                                                               false)),
                                                               (String
                                                               ((Ascii (true,
                                                               false, true,
                                                               false, false,
                                                               true, true,
                                                               false)),
                                                               EmptyString)))))))))))))
                                                        else if b3
                                                             then if b4
                                                                  then 
                                                                    String
                                                                    ((Ascii
                                                                    (false,
                                                                    true,
                                                                    false,
                                                                    false,
                                                                    false,
                                                                    true,
                                                                    true,
                                                                    false)),
                                                                    (String
                                                                    ((Ascii
                                                                    (true,
                                                                    false,
                                                                    false,
                                                                    false,
                                                                    false,
                                                                    true,
                                                                    true,
                                                                    false)),
                                                                    (String
                                                                    ((Ascii
                                                                    (false,
                                                                    false,
                                                                    true,
                                                                    false,
                                                                    false,
                                                                    true,
                                                                    true,
                                                                    false)),
                                                                    (String
                                                                    ((Ascii
                                                                    (true,
                                                                    true,
                                                                    false,
                                                                    false,
                                                                    false,
                                                                    true,
                                                                    true,
                                                                    false)),
                                                                    (String
                                                                    ((Ascii
                                                                    (true,
                                                                    false,
                                                                    false,
                                                                    false,
                                                                    false,
                                                                    true,
                                                                    true,
                                                                    false)),
                                                                    (String
                                                                    ((Ascii
                                                                    (true,
                                                                    true,
                                                                    false,
                                                                    false,
                                                                    true,
                                                                    true,
                                                                    true,
                                                                    false)),
                                                                    (String
                                                                    ((Ascii
                                                                    (true,
                                                                    false,
                                                                    true,
                                                                    false,
                                                                    false,
                                                                    true,
                                                                    true,
                                                                    false)),
                                                                    EmptyString)))))))))))))
                                                                  else 
                                                                    if b5
                                                                    then 
                                                                    if b6
                                                                    then 
                                                                    String
                                                                    ((Ascii
                                                                    (false,
                                                                    true,
                                                                    false,
                                                                    false,
                                                                    false,
                                                                    true,
                                                                    true,
                                                                    false)),
                                                                    (String
                                                                    ((Ascii
                                                                    (true,
                                                                    false,
                                                                    false,
                                                                    false,
                                                                    false,
                                                                    true,
                                                                    true,
                                                                    false)),
                                                                    (String
                                                                    ((Ascii
                                                                    (false,
                                                                    false,
                                                                    true,
                                                                    false,
                                                                    false,
                                                                    true,
                                                                    true,
                                                                    false)),
                                                                    (String
                                                                    ((Ascii
                                                                    (true,
                                                                    true,
                                                                    false,
                                                                    false,
                                                                    false,
                                                                    true,
                                                                    true,
                                                                    false)),
                                                                    (String
                                                                    ((Ascii
                                                                    (true,
                                                                    false,
                                                                    false,
                                                                    false,
                                                                    false,
                                                                    true,
                                                                    true,
                                                                    false)),
                                                                    (String
                                                                    ((Ascii
                                                                    (true,
                                                                    true,
                                                                    false,
                                                                    false,
                                                                    true,
                                                                    true,
                                                                    true,
                                                                    false)),
                                                                    (String
                                                                    ((Ascii
                                                                    (true,
                                                                    false,
                                                                    true,
                                                                    false,
                                                                    false,
                                                                    true,
                                                                    true,
                                                                    false)),
                                                                    EmptyString)))))))))))))
                                                                    else 
                                                                    (match l2 with
                                                                    | [] ->
                                                                    if 
                                                                    eqb1 op
                                                                    (String
                                                                    ((Ascii
                                                                    (false,
                                                                    true,
                                                                    true,
                                                                    true,
                                                                    false,
                                                                    true,
                                                                    true,
                                                                    false)),
                                                                    (String
                                                                    ((Ascii
                                                                    (true,
                                                                    true,
                                                                    true,
                                                                    true,
                                                                    false,
                                                                    true,
                                                                    true,
                                                                    false)),
                                                                    (String
                                                                    ((Ascii
                                                                    (false,
                                                                    false,
                                                                    true,
                                                                    false,
                                                                    false,
                                                                    true,
                                                                    true,
                                                                    false)),
                                                                    (String
                                                                    ((Ascii
                                                                    (true,
                                                                    false,
                                                                    true,
                                                                    false,
                                                                    false,
                                                                    true,
                                                                    true,
                                                                    false)),
                                                                    EmptyString))))))))
                                                                    then 
                                                                    (match 
                                                                    unhex h with
                                                                    | Some name ->
                                                                    canon_res
                                                                    canon_nodeinfo
                                                                    (bind
                                                                    tables
                                                                    (fun pat ->
                                                                    let (
                                                                    nt, ct) =
                                                                    pat
                                                                    in
                                                                    render_node
                                                                    inc_fuel
                                                                    run_fuel
                                                                    cfg
                                                                    (String
                                                                    ((Ascii
                                                                    (false,
                                                                    false,
                                                                    true,
                                                                    true,
                                                                    true,
                                                                    true,
                                                                    false,
                                                                    false)),
                                                                    (String
                                                                    ((Ascii
                                                                    (false,
                                                                    true,
                                                                    true,
                                                                    true,
                                                                    false,
                                                                    false,
                                                                    true,
                                                                    false)),
                                                                    (String
                                                                    ((Ascii
                                                                    (true,
                                                                    true,
                                                                    true,
                                                                    true,
                                                                    false,
                                                                    false,
                                                                    true,
                                                                    false)),
                                                                    (String
                                                                    ((Ascii
                                                                    (false,
                                                                    false,
                                                                    true,
                                                                    false,
                                                                    false,
                                                                    false,
                                                                    true,
                                                                    false)),
                                                                    (String
                                                                    ((Ascii
                                                                    (true,
                                                                    false,
                                                                    true,
                                                                    false,
                                                                    false,
                                                                    false,
                                                                    true,
                                                                    false)),
                                                                    (String
                                                                    ((Ascii
                                                                    (true,
                                                                    true,
                                                                    false,
                                                                    false,
                                                                    true,
                                                                    false,
                                                                    true,
                                                                    false)),
                                                                    (String
                                                                    ((Ascii
                                                                    (false,
                                                                    true,
                                                                    true,
                                                                    true,
                                                                    true,
                                                                    true,
                                                                    false,
                                                                    false)),
                                                                    EmptyString))))))))))))))
                                                                    nt ct name))
                                                                    | None ->
                                                                    String
                                                                    ((Ascii
                                                                    (false,
                                                                    true,
                                                                    false,
                                                                    false,
                                                                    false,
                                                                    true,
                                                                    true,
                                                                    false)),
                                                                    (String
                                                                    ((Ascii
                                                                    (true,
                                                                    false,
                                                                    false,
                                                                    false,
                                                                    false,
                                                                    true,
                                                                    true,
                                                                    false)),
                                                                    (String
                                                                    ((Ascii
                                                                    (false,
                                                                    false,
                                                                    true,
                                                                    false,
                                                                    false,
                                                                    true,
                                                                    true,
                                                                    false)),
                                                                    (String
                                                                    ((Ascii
                                                                    (true,
                                                                    true,
                                                                    false,
                                                                    false,
                                                                    false,
                                                                    true,
                                                                    true,
                                                                    false)),
                                                                    (String
                                                                    ((Ascii
                                                                    (true,
                                                                    false,
                                                                    false,
                                                                    false,
                                                                    false,
                                                                    true,
                                                                    true,
                                                                    false)),
                                                                    (String
                                                                    ((Ascii
                                                                    (true,
                                                                    true,
                                                                    false,
                                                                    false,
                                                                    true,
                                                                    true,
                                                                    true,
                                                                    false)),
                                                                    (String
                                                                    ((Ascii
                                                                    (true,
                                                                    false,
                                                                    true,
                                                                    false,
                                                                    false,
                                                                    true,
                                                                    true,
                                                                    false)),
                                                                    EmptyString))))))))))))))
                                                                    else 
                                                                    String
                                                                    ((Ascii
                                                                    (false,
                                                                    true,
                                                                    false,
                                                                    false,
                                                                    false,
                                                                    true,
                                                                    true,
                                                                    false)),
                                                                    (String
                                                                    ((Ascii
                                                                    (true,
                                                                    false,
                                                                    false,
                                                                    false,
                                                                    false,
                                                                    true,
                                                                    true,
                                                                    false)),
                                                                    (String
                                                                    ((Ascii
                                                                    (false,
                                                                    false,
                                                                    true,
                                                                    false,
                                                                    false,
                                                                    true,
                                                                    true,
                                                                    false)),
                                                                    (String
                                                                    ((Ascii
                                                                    (true,
                                                                    true,
                                                                    false,
                                                                    false,
                                                                    false,
                                                                    true,
                                                                    true,
                                                                    false)),
                                                                    (String
                                                                    ((Ascii
                                                                    (true,
                                                                    false,
                                                                    false,
                                                                    false,
                                                                    false,
                                                                    true,
                                                                    true,
                                                                    false)),
                                                                    (String
                                                                    ((Ascii
                                                                    (true,
                                                                    true,
                                                                    false,
                                                                    false,
                                                                    true,
                                                                    true,
                                                                    true,
                                                                    false)),
                                                                    (String
                                                                    ((Ascii
                                                                    (true,
                                                                    false,
                                                                    true,
                                                                    false,
                                                                    false,
                                                                    true,
                                                                    true,
                                                                    false)),
                                                                    EmptyString)))))))))))))
                                                                    | _ :: _ ->
                                                                    String
                                                                    ((Ascii
                                                                    (false,
                                                                    true,
                                                                    false,
                                                                    false,
                                                                    false,
                                                                    true,
                                                                    true,
                                                                    false)),
                                                                    (String
                                                                    ((Ascii
                                                                    (true,
                                                                    false,
                                                                    false,
                                                                    false,
                                                                    false,
                                                                    true,
                                                                    true,
                                                                    false)),
                                                                    (String
                                                                    ((Ascii
                                                                    (false,
                                                                    false,
                                                                    true,
                                                                    false,
                                                                    false,
                                                                    true,
                                                                    true,
                                                                    false)),
                                                                    (String
                                                                    ((Ascii
                                                                    (true,
                                                                    true,
                                                                    false,
                                                                    false,
                                                                    false,
                                                                    true,
                                                                    true,
                                                                    false)),
                                                                    (String
                                                                    ((Ascii
                                                                    (true,
                                                                    false,
                                                                    false,
                                                                    false,
                                                                    false,
                                                                    true,
                                                                    true,
                                                                    false)),
                                                                    (String
                                                                    ((Ascii
                                                                    (true,
                                                                    true,
                                                                    false,
                                                                    false,
                                                                    true,
                                                                    true,
                                                                    true,
                                                                    false)),
                                                                    (String
                                                                    ((Ascii
                                                                    (true,
                                                                    false,
                                                                    true,
                                                                    false,
                                                                    false,
                                                                    true,
                                                                    true,
                                                                    false)),
                                                                    EmptyString))))))))))))))
                                                                    else 
                                                                    String
                                                                    ((Ascii
                                                                    (false,
                                                                    true,
                                                                    false,
                                                                    false,
                                                                    false,
                                                                    true,
                                                                    true,
                                                                    false)),
                                                                    (String
                                                                    ((Ascii
                                                                    (true,
                                                                    false,
                                                                    false,
                                                                    false,
                                                                    false,
                                                                    true,
                                                                    true,
                                                                    false)),
                                                                    (String
                                                                    ((Ascii
                                                                    (false,
                                                                    false,
                                                                    true,
                                                                    false,
                                                                    false,
                                                                    true,
                                                                    true,
                                                                    false)),
                                                                    (String
                                                                    ((Ascii
                                                                    (true,
                                                                    true,
                                                                    false,
                                                                    false,
                                                                    false,
                                                                    true,
                                                                    true,
                                                                    false)),
                                                                    (String
                                                                    ((Ascii
                                                                    (true,
                                                                    false,
                                                                    false,
                                                                    false,
                                                                    false,
                                                                    true,
                                                                    true,
                                                                    false)),
                                                                    (String
                                                                    ((Ascii
                                                                    (true,
                                                                    true,
                                                                    false,
                                                                    false,
                                                                    true,
                                                                    true,
                                                                    true,
                                                                    false)),
                                                                    (String
                                                                    ((Ascii
                                                                    (true,
                                                                    false,
                                                                    true,
                                                                    false,
                                                                    false,
                                                                    true,
                                                                    true,
                                                                    false)),
                                                                    EmptyString)))))))))))))
                                                             else String
                                                                    ((Ascii
                                                                    (false,
                                                                    true,
                                                                    false,
                                                                    false,
                                                                    false,
                                                                    true,
                                                                    true,
                                                                    false)),
                                                                    (String
                                                                    ((Ascii
                                                                    (true,
                                                                    false,
                                                                    false,
                                                                    false,
                                                                    false,
                                                                    true,
                                                                    true,
                                                                    false)),
                                                                    (String
                                                                    ((Ascii
                                                                    (false,
                                                                    false,
                                                                    true,
                                                                    false,
                                                                    false,
                                                                    true,
                                                                    true,
                                                                    false)),
                                                                    (String
                                                                    ((Ascii
                                                                    (true,
                                                                    true,
                                                                    false,
                                                                    false,
                                                                    false,
                                                                    true,
                                                                    true,
                                                                    false)),
                                                                    (String
                                                                    ((Ascii
                                                                    (true,
                                                                    false,
                                                                    false,
                                                                    false,
                                                                    false,
                                                                    true,
                                                                    true,
                                                                    false)),
                                                                    (String
                                                                    ((Ascii
                                                                    (true,
                                                                    true,
                                                                    false,
                                                                    false,
                                                                    true,
                                                                    true,
                                                                    true,
                                                                    false)),
                                                                    (String
                                                                    ((Ascii
                                                                    (true,
                                                                    false,
                                                                    true,
                                                                    false,
                                                                    false,
                                                                    true,
                                                                    true,
                                                                    false)),
                                                                    EmptyString)))))))))))))
                                              else String ((Ascii (false,
                                                     true, false, false,
                                                     false, true, true,
                                                     false)), (String ((Ascii
                                                     (true, false, false,
                                                     false, false, true,
                                                     true, false)), (String
                                                     ((Ascii (false, false,
                                                     true, false, false,
                                                     true, true, false)),
                                                     (String ((Ascii (true,
                                                     true, false, false,
                                                     false, true, true,
                                                     false)), (String ((Ascii
                                                     (true, false, false,
                                                     false, false, true,
                                                     true, false)), (String
                                                     ((Ascii (true, true,
                                                     false, false, true,
                                                     true, true, false)),
                                                     (String ((Ascii (true,
                                                     false, true, false,
                                                     false, true, true,
                                                     false)),
                                                     EmptyString)))))))))))))
                                         else String ((Ascii (false, true,
                                                false, false, false, true,
                                                true, false)), (String
                                                ((Ascii (true, false, false,
                                                false, false, true, true,
                                                false)), (String ((Ascii
                                                (false, false, true, false,
                                                false, true, true, false)),
                                                (String ((Ascii (true, true,
                                                false, false, false, true,
                                                true, false)), (String
                                                ((Ascii (true, false, false,
                                                false, false, true, true,
                                                false)), (String ((Ascii
                                                (true, true, false, false,
                                                true, true, true, false)),
                                                (String ((Ascii (true, false,
                                                true, false, false, true,
                                                true, false)),
                                                EmptyString))))))))))))))))
                              | None ->
                                String ((Ascii (false, true, false, false,
                                  false, true, true, false)), (String ((Ascii
                                  (true, false, false, false, false, true,
                                  true, false)), (String ((Ascii (false,
                                  false, true, false, false, true, true,
                                  false)), (String ((Ascii (true, true,
                                  false, false, false, true, true, false)),
                                  (String ((Ascii (true, false, false, false,
                                  false, true, true, false)), (String ((Ascii
                                  (true, true, false, false, true, true,
                                  true, false)), (String ((Ascii (true,
                                  false, true, false, false, true, true,
                                  false)), EmptyString))))))))))))))
                           | None ->
                             String ((Ascii (false, true, false, false,
                               false, true, true, false)), (String ((Ascii
                               (true, false, false, false, false, true, true,
                               false)), (String ((Ascii (false, false, true,
                               false, false, true, true, false)), (String
                               ((Ascii (true, true, false, false, false,
                               true, true, false)), (String ((Ascii (true,
                               false, false, false, false, true, true,
                               false)), (String ((Ascii (true, true, false,
                               false, true, true, true, false)), (String
                               ((Ascii (true, false, true, false, false,
                               true, true, false)), EmptyString))))))))))))))
                        | None ->
                          String ((Ascii (false, true, false, false, false,
                            true, true, false)), (String ((Ascii (true,
                            false, false, false, false, true, true, false)),
                            (String ((Ascii (false, false, true, false,
                            false, true, true, false)), (String ((Ascii
                            (true, true, false, false, false, true, true,
                            false)), (String ((Ascii (true, false, false,
                            false, false, true, true, false)), (String
                            ((Ascii (true, true, false, false, true, true,
                            true, false)), (String ((Ascii (true, false,
                            true, false, false, true, true, false)),
                            EmptyString))))))))))))))
                     | None ->
                       String ((Ascii (false, true, false, false, false,
                         true, true, false)), (String ((Ascii (true, false,
                         false, false, false, true, true, false)), (String
                         ((Ascii (false, false, true, false, false, true,
                         true, false)), (String ((Ascii (true, true, false,
                         false, false, true, true, false)), (String ((Ascii
                         (true, false, false, false, false, true, true,
                         false)), (String ((Ascii (true, true, false, false,
                         true, true, true, false)), (String ((Ascii (true,
                         false, true, false, false, true, true, false)),
                         EmptyString)))))))))))))))
               | None ->
                 String ((Ascii (false, true, false, false, false, true,
                   true, false)), (String ((Ascii (true, false, false, false,
                   false, true, true, false)), (String ((Ascii (false, false,
                   true, false, false, true, true, false)), (String ((Ascii
                   (true, true, false, false, false, true, true, false)),
                   (String ((Ascii (true, false, false, false, false, true,
                   true, false)), (String ((Ascii (true, true, false, false,
                   true, true, true, false)), (String ((Ascii (true, false,
                   true, false, false, true, true, false)),
                   EmptyString))))))))))))))
            | None ->
              String ((Ascii (false, true, false, false, false, true, true,
                false)), (String ((Ascii (true, false, false, false, false,
                true, true, false)), (String ((Ascii (false, false, true,
                false, false, true, true, false)), (String ((Ascii (true,
                true, false, false, false, true, true, false)), (String
                ((Ascii (true, false, false, false, false, true, true,
                false)), (String ((Ascii (true, true, false, false, true,
                true, true, false)), (String ((Ascii (true, false, true,
                false, false, true, true, false)), EmptyString))))))))))))))
         | None ->
           String ((Ascii (false, true, false, false, false, true, true,
             false)), (String ((Ascii (true, false, false, false, false,
             true, true, false)), (String ((Ascii (false, false, true, false,
             false, true, true, false)), (String ((Ascii (true, true, false,
             false, false, true, true, false)), (String ((Ascii (true, false,
             false, false, false, true, true, false)), (String ((Ascii (true,
             true, false, false, true, true, true, false)), (String ((Ascii
             (true, false, true, false, false, true, true, false)),
             EmptyString))))))))))))))))

(** val run_abs : string list -> string **)

let run_abs = function
| [] ->
  String ((Ascii (false, true, false, false, false, true, true, false)),
    (String ((Ascii (true, false, false, false, false, true, true, false)),
    (String ((Ascii (false, false, true, false, false, true, true, false)),
    (String ((Ascii (true, true, false, false, false, true, true, false)),
    (String ((Ascii (true, false, false, false, false, true, true, false)),
    (String ((Ascii (true, true, false, false, true, true, true, false)),
    (String ((Ascii (true, false, true, false, false, true, true, false)),
    EmptyString)))))))))))))
| n0 :: ts1 ->
  (match nat_of_string n0 with
   | Some n1 ->
     (match p_strs n1 ts1 with
      | Some p ->
        let (loc, l) = p in
        (match l with
         | [] ->
           String ((Ascii (false, true, false, false, false, true, true,
             false)), (String ((Ascii (true, false, false, false, false,
             true, true, false)), (String ((Ascii (false, false, true, false,
             false, true, true, false)), (String ((Ascii (true, true, false,
             false, false, true, true, false)), (String ((Ascii (true, false,
             false, false, false, true, true, false)), (String ((Ascii (true,
             true, false, false, true, true, true, false)), (String ((Ascii
             (true, false, true, false, false, true, true, false)),
             EmptyString)))))))))))))
         | s :: l0 ->
           (match s with
            | EmptyString ->
              String ((Ascii (false, true, false, false, false, true, true,
                false)), (String ((Ascii (true, false, false, false, false,
                true, true, false)), (String ((Ascii (false, false, true,
                false, false, true, true, false)), (String ((Ascii (true,
                true, false, false, false, true, true, false)), (String
                ((Ascii (true, false, false, false, false, true, true,
                false)), (String ((Ascii (true, true, false, false, true,
                true, true, false)), (String ((Ascii (true, false, true,
                false, false, true, true, false)), EmptyString)))))))))))))
            | String (a, h) ->
              let Ascii (b, b0, b1, b2, b3, b4, b5, b6) = a in
              if b
              then if b0
                   then if b1
                        then String ((Ascii (false, true, false, false,
                               false, true, true, false)), (String ((Ascii
                               (true, false, false, false, false, true, true,
                               false)), (String ((Ascii (false, false, true,
                               false, false, true, true, false)), (String
                               ((Ascii (true, true, false, false, false,
                               true, true, false)), (String ((Ascii (true,
                               false, false, false, false, true, true,
                               false)), (String ((Ascii (true, true, false,
                               false, true, true, true, false)), (String
                               ((Ascii (true, false, true, false, false,
                               true, true, false)), EmptyString)))))))))))))
                        else if b2
                             then String ((Ascii (false, true, false, false,
                                    false, true, true, false)), (String
                                    ((Ascii (true, false, false, false,
                                    false, true, true, false)), (String
                                    ((Ascii (false, false, true, false,
                                    false, true, true, false)), (String
                                    ((Ascii (true, true, false, false, false,
                                    true, true, false)), (String ((Ascii
                                    (true, false, false, false, false, true,
                                    true, false)), (String ((Ascii (true,
                                    true, false, false, true, true, true,
                                    false)), (String ((Ascii (true, false,
                                    true, false, false, true, true, false)),
                                    EmptyString)))))))))))))
                             else if b3
                                  then if b4
                                       then String ((Ascii (false, true,
                                              false, false, false, true,
                                              true, false)), (String ((Ascii
                                              (true, false, false, false,
                                              false, true, true, false)),
                                              (String ((Ascii (false, false,
                                              true, false, false, true, true,
                                              false)), (String ((Ascii (true,
                                              true, false, false, false,
                                              true, true, false)), (String
                                              ((Ascii (true, false, false,
                                              false, false, true, true,
                                              false)), (String ((Ascii (true,
                                              true, false, false, true, true,
                                              true, false)), (String ((Ascii
                                              (true, false, true, false,
                                              false, true, true, false)),
                                              EmptyString)))))))))))))
                                       else if b5
                                            then if b6
                                                 then String ((Ascii (false,
                                                        true, false, false,
                                                        false, true, true,
                                                        false)), (String
                                                        ((Ascii (true, false,
                                                        false, false, false,
                                                        true, true, false)),
                                                        (String ((Ascii
                                                        (false, false, true,
                                                        false, false, true,
                                                        true, false)),
                                                        (String ((Ascii
                                                        (true, true, false,
                                                        false, false, true,
                                                        true, false)),
                                                        (String ((Ascii
                                                        (true, false, false,
                                                        false, false, true,
                                                        true, false)),
                                                        (String ((Ascii
                                                        (true, true, false,
                                                        false, true, true,
                                                        true, false)),
                                                        (String ((Ascii
                                                        (true, false, true,
                                                        false, false, true,
                                                        true, false)),
                                                        EmptyString)))))))))))))
                                                 else (match l0 with
                                                       | [] ->
                                                         (match unhex h with
                                                          | Some cls ->
                                                            sp (String
                                                              ((Ascii (true,
                                                              true, true,
                                                              true, false,
                                                              true, true,
                                                              false)),
                                                              (String ((Ascii
                                                              (true, true,
                                                              false, true,
                                                              false, true,
                                                              true, false)),
                                                              EmptyString))))
                                                              (hx
                                                                (abs_class_name
                                                                  loc cls))
                                                          | None ->
                                                            String ((Ascii
                                                              (false, true,
                                                              false, false,
                                                              false, true,
                                                              true, false)),
                                                              (String ((Ascii
                                                              (true, false,
                                                              false, false,
                                                              false, true,
                                                              true, false)),
                                                              (String ((Ascii
                                                              (false, false,
                                                              true, false,
                                                              false, true,
                                                              true, false)),
                                                              (String ((Ascii
                                                              (true, true,
                                                              false, false,
                                                              false, true,
                                                              true, false)),
                                                              (String ((Ascii
                                                              (true, false,
                                                              false, false,
                                                              false, true,
                                                              true, false)),
                                                              (String ((Ascii
                                                              (true, true,
                                                              false, false,
                                                              true, true,
                                                              true, false)),
                                                              (String ((Ascii
                                                              (true, false,
                                                              true, false,
                                                              false, true,
                                                              true, false)),
                                                              EmptyString))))))))))))))
                                                       | _ :: _ ->
                                                         String ((Ascii
                                                           (false, true,
                                                           false, false,
                                                           false, true, true,
                                                           false)), (String
                                                           ((Ascii (true,
                                                           false, false,
                                                           false, false,
                                                           true, true,
                                                           false)), (String
                                                           ((Ascii (false,
                                                           false, true,
                                                           false, false,
                                                           true, true,
                                                           false)), (String
                                                           ((Ascii (true,
                                                           true, false,
                                                           false, false,
                                                           true, true,
                                                           false)), (String
                                                           ((Ascii (true,
                                                           false, false,
                                                           false, false,
                                                           true, true,
                                                           false)), (String
                                                           ((Ascii (true,
                                                           true, false,
                                                           false, true, true,
                                                           true, false)),
                                                           (String ((Ascii
                                                           (true, false,
                                                           true, false,
                                                           false, true, true,
                                                           false)),
                                                           EmptyString))))))))))))))
                                            else String ((Ascii (false, true,
                                                   false, false, false, true,
                                                   true, false)), (String
                                                   ((Ascii (true, false,
                                                   false, false, false, true,
                                                   true, false)), (String
                                                   ((Ascii (false, false,
                                                   true, false, false, true,
                                                   true, false)), (String
                                                   ((Ascii (true, true,
                                                   false, false, false, true,
                                                   true, false)), (String
                                                   ((Ascii (true, false,
                                                   false, false, false, true,
                                                   true, false)), (String
                                                   ((Ascii (true, true,
                                                   false, false, true, true,
                                                   true, false)), (String
                                                   ((Ascii (true, false,
                                                   true, false, false, true,
                                                   true, false)),
                                                   EmptyString)))))))))))))
                                  else String ((Ascii (false, true, false,
                                         false, false, true, true, false)),
                                         (String ((Ascii (true, false, false,
                                         false, false, true, true, false)),
                                         (String ((Ascii (false, false, true,
                                         false, false, true, true, false)),
                                         (String ((Ascii (true, true, false,
                                         false, false, true, true, false)),
                                         (String ((Ascii (true, false, false,
                                         false, false, true, true, false)),
                                         (String ((Ascii (true, true, false,
                                         false, true, true, true, false)),
                                         (String ((Ascii (true, false, true,
                                         false, false, true, true, false)),
                                         EmptyString)))))))))))))
                   else String ((Ascii (false, true, false, false, false,
                          true, true, false)), (String ((Ascii (true, false,
                          false, false, false, true, true, false)), (String
                          ((Ascii (false, false, true, false, false, true,
                          true, false)), (String ((Ascii (true, true, false,
                          false, false, true, true, false)), (String ((Ascii
                          (true, false, false, false, false, true, true,
                          false)), (String ((Ascii (true, true, false, false,
                          true, true, true, false)), (String ((Ascii (true,
                          false, true, false, false, true, true, false)),
                          EmptyString)))))))))))))
              else String ((Ascii (false, true, false, false, false, true,
                     true, false)), (String ((Ascii (true, false, false,
                     false, false, true, true, false)), (String ((Ascii
                     (false, false, true, false, false, true, true, false)),
                     (String ((Ascii (true, true, false, false, false, true,
                     true, false)), (String ((Ascii (true, false, false,
                     false, false, true, true, false)), (String ((Ascii
                     (true, true, false, false, true, true, true, false)),
                     (String ((Ascii (true, false, true, false, false, true,
                     true, false)), EmptyString)))))))))))))))
      | None ->
        String ((Ascii (false, true, false, false, false, true, true,
          false)), (String ((Ascii (true, false, false, false, false, true,
          true, false)), (String ((Ascii (false, false, true, false, false,
          true, true, false)), (String ((Ascii (true, true, false, false,
          false, true, true, false)), (String ((Ascii (true, false, false,
          false, false, true, true, false)), (String ((Ascii (true, true,
          false, false, true, true, true, false)), (String ((Ascii (true,
          false, true, false, false, true, true, false)),
          EmptyString))))))))))))))
   | None ->
     String ((Ascii (false, true, false, false, false, true, true, false)),
       (String ((Ascii (true, false, false, false, false, true, true,
       false)), (String ((Ascii (false, false, true, false, false, true,
       true, false)), (String ((Ascii (true, true, false, false, false, true,
       true, false)), (String ((Ascii (true, false, false, false, false,
       true, true, false)), (String ((Ascii (true, true, false, false, true,
       true, true, false)), (String ((Ascii (true, false, true, false, false,
       true, true, false)), EmptyString))))))))))))))

(** val run_line2 : string -> string **)

let run_line2 line =
  match words line with
  | [] ->
    String ((Ascii (false, true, false, false, false, true, true, false)),
      (String ((Ascii (true, false, false, false, false, true, true, false)),
      (String ((Ascii (false, false, true, false, false, true, true, false)),
      (String ((Ascii (false, false, true, true, false, true, true, false)),
      (String ((Ascii (true, false, false, true, false, true, true, false)),
      (String ((Ascii (false, true, true, true, false, true, true, false)),
      (String ((Ascii (true, false, true, false, false, true, true, false)),
      EmptyString)))))))))))))
  | id :: l ->
    (match l with
     | [] ->
       String ((Ascii (false, true, false, false, false, true, true, false)),
         (String ((Ascii (true, false, false, false, false, true, true,
         false)), (String ((Ascii (false, false, true, false, false, true,
         true, false)), (String ((Ascii (false, false, true, true, false,
         true, true, false)), (String ((Ascii (true, false, false, true,
         false, true, true, false)), (String ((Ascii (false, true, true,
         true, false, true, true, false)), (String ((Ascii (true, false,
         true, false, false, true, true, false)), EmptyString)))))))))))))
     | mode :: ts ->
       if eqb1 mode (String ((Ascii (true, false, false, true, false, true,
            true, false)), (String ((Ascii (false, true, true, true, false,
            true, true, false)), (String ((Ascii (false, true, true, false,
            true, true, true, false)), EmptyString))))))
       then append id (append tab (run_inv ts))
       else if eqb1 mode (String ((Ascii (true, false, false, false, false,
                 true, true, false)), (String ((Ascii (false, true, false,
                 false, false, true, true, false)), (String ((Ascii (true,
                 true, false, false, true, true, true, false)),
                 EmptyString))))))
            then append id (append tab (run_abs ts))
            else run_line line)

(** val literalize : value -> value **)

let rec literalize v = match v with
| VStr s -> VLit s
| VMap es ->
  VMap
    (map (fun pat ->
      let (y, o) = pat in
      let (y0, c) = y in let (k, x) = y0 in (((k, (literalize x)), c), o)) es)
| VSeq l -> VSeq (map literalize l)
| _ -> v

(** val run_textof : string list -> string **)

let run_textof ts =
  match p_yaml (S (length ts)) ts with
  | Some p ->
    let (y, l) = p in
    (match l with
     | [] ->
       (match value_of_yaml y with
        | Ok v ->
          (match text_of (literalize v) with
           | Some s ->
             sp (String ((Ascii (true, true, true, true, false, true, true,
               false)), (String ((Ascii (true, true, false, true, false,
               true, true, false)), EmptyString)))) (hx s)
           | None ->
             String ((Ascii (false, true, true, true, false, true, true,
               false)), (String ((Ascii (true, true, true, true, false, true,
               true, false)), (String ((Ascii (false, false, true, false,
               true, true, true, false)), (String ((Ascii (true, true, false,
               false, false, true, true, false)), (String ((Ascii (false,
               false, true, true, false, true, true, false)), (String ((Ascii
               (true, true, true, true, false, true, true, false)), (String
               ((Ascii (true, true, false, false, true, true, true, false)),
               (String ((Ascii (true, false, true, false, false, true, true,
               false)), (String ((Ascii (false, false, true, false, false,
               true, true, false)), EmptyString))))))))))))))))))
        | _ ->
          String ((Ascii (false, true, false, false, false, true, true,
            false)), (String ((Ascii (true, false, false, false, false, true,
            true, false)), (String ((Ascii (false, false, true, false, false,
            true, true, false)), (String ((Ascii (true, true, false, false,
            false, true, true, false)), (String ((Ascii (true, false, false,
            false, false, true, true, false)), (String ((Ascii (true, true,
            false, false, true, true, true, false)), (String ((Ascii (true,
            false, true, false, false, true, true, false)),
            EmptyString))))))))))))))
     | _ :: _ ->
       String ((Ascii (false, true, false, false, false, true, true, false)),
         (String ((Ascii (true, false, false, false, false, true, true,
         false)), (String ((Ascii (false, false, true, false, false, true,
         true, false)), (String ((Ascii (true, true, false, false, false,
         true, true, false)), (String ((Ascii (true, false, false, false,
         false, true, true, false)), (String ((Ascii (true, true, false,
         false, true, true, true, false)), (String ((Ascii (true, false,
         true, false, false, true, true, false)), EmptyString))))))))))))))
  | None ->
    String ((Ascii (false, true, false, false, false, true, true, false)),
      (String ((Ascii (true, false, false, false, false, true, true, false)),
      (String ((Ascii (false, false, true, false, false, true, true, false)),
      (String ((Ascii (true, true, false, false, false, true, true, false)),
      (String ((Ascii (true, false, false, false, false, true, true, false)),
      (String ((Ascii (true, true, false, false, true, true, true, false)),
      (String ((Ascii (true, false, true, false, false, true, true, false)),
      EmptyString)))))))))))))

(** val run_line3 : string -> string **)

let run_line3 line =
  match words line with
  | [] ->
    String ((Ascii (false, true, false, false, false, true, true, false)),
      (String ((Ascii (true, false, false, false, false, true, true, false)),
      (String ((Ascii (false, false, true, false, false, true, true, false)),
      (String ((Ascii (false, false, true, true, false, true, true, false)),
      (String ((Ascii (true, false, false, true, false, true, true, false)),
      (String ((Ascii (false, true, true, true, false, true, true, false)),
      (String ((Ascii (true, false, true, false, false, true, true, false)),
      EmptyString)))))))))))))
  | id :: l ->
    (match l with
     | [] ->
       String ((Ascii (false, true, false, false, false, true, true, false)),
         (String ((Ascii (true, false, false, false, false, true, true,
         false)), (String ((Ascii (false, false, true, false, false, true,
         true, false)), (String ((Ascii (false, false, true, true, false,
         true, true, false)), (String ((Ascii (true, false, false, true,
         false, true, true, false)), (String ((Ascii (false, true, true,
         true, false, true, true, false)), (String ((Ascii (true, false,
         true, false, false, true, true, false)), EmptyString)))))))))))))
     | mode :: ts ->
       if eqb1 mode (String ((Ascii (false, false, true, false, true, true,
            true, false)), (String ((Ascii (true, false, true, false, false,
            true, true, false)), (String ((Ascii (false, false, false, true,
            true, true, true, false)), (String ((Ascii (false, false, true,
            false, true, true, true, false)), (String ((Ascii (true, true,
            true, true, false, true, true, false)), (String ((Ascii (false,
            true, true, false, false, true, true, false)),
            EmptyString))))))))))))
       then append id (append tab (run_textof ts))
       else run_line2 line)

(** val run_spec : string list -> string **)

let run_spec = function
| [] ->
  String ((Ascii (false, true, false, false, false, true, true, false)),
    (String ((Ascii (true, false, false, false, false, true, true, false)),
    (String ((Ascii (false, false, true, false, false, true, true, false)),
    (String ((Ascii (true, true, false, false, false, true, true, false)),
    (String ((Ascii (true, false, false, false, false, true, true, false)),
    (String ((Ascii (true, true, false, false, true, true, true, false)),
    (String ((Ascii (true, false, true, false, false, true, true, false)),
    EmptyString)))))))))))))
| n0 :: ts' ->
  (match nat_of_string n0 with
   | Some n1 ->
     (match p_yamls n1 ts' with
      | Some p ->
        let (ys, l) = p in
        (match l with
         | [] ->
           (match deep_merge run_fuel ys with
            | SOk v ->
              sp (String ((Ascii (true, true, true, true, false, true, true,
                false)), (String ((Ascii (true, true, false, true, false,
                true, true, false)), EmptyString)))) (canon false v)
            | SErr e ->
              (match e with
               | SConst k ->
                 sp (String ((Ascii (true, false, true, false, false, true,
                   true, false)), (String ((Ascii (false, true, false, false,
                   true, true, true, false)), (String ((Ascii (false, true,
                   false, false, true, true, true, false)), (String ((Ascii
                   (false, false, false, false, false, true, false, false)),
                   (String ((Ascii (true, false, true, false, false, false,
                   true, false)), (String ((Ascii (true, true, false, false,
                   false, false, true, false)), (String ((Ascii (true, true,
                   true, true, false, true, true, false)), (String ((Ascii
                   (false, true, true, true, false, true, true, false)),
                   (String ((Ascii (true, true, false, false, true, true,
                   true, false)), (String ((Ascii (false, false, true, false,
                   true, true, true, false)), EmptyString))))))))))))))))))))
                   (canon false k)
               | SConflict ->
                 String ((Ascii (true, false, true, false, false, true, true,
                   false)), (String ((Ascii (false, true, false, false, true,
                   true, true, false)), (String ((Ascii (false, true, false,
                   false, true, true, true, false)), (String ((Ascii (false,
                   false, false, false, false, true, false, false)), (String
                   ((Ascii (true, false, true, false, false, false, true,
                   false)), (String ((Ascii (true, false, true, true, false,
                   false, true, false)), (String ((Ascii (true, false, true,
                   false, false, true, true, false)), (String ((Ascii (false,
                   true, false, false, true, true, true, false)), (String
                   ((Ascii (true, true, true, false, false, true, true,
                   false)), (String ((Ascii (true, false, true, false, false,
                   true, true, false)), EmptyString)))))))))))))))))))
               | SPanic s ->
                 sp (String ((Ascii (false, false, false, false, true, true,
                   true, false)), (String ((Ascii (true, false, false, false,
                   false, true, true, false)), (String ((Ascii (false, true,
                   true, true, false, true, true, false)), (String ((Ascii
                   (true, false, false, true, false, true, true, false)),
                   (String ((Ascii (true, true, false, false, false, true,
                   true, false)), EmptyString)))))))))) (site_name s))
            | SFuel ->
              String ((Ascii (false, true, true, false, false, true, true,
                false)), (String ((Ascii (true, false, true, false, true,
                true, true, false)), (String ((Ascii (true, false, true,
                false, false, true, true, false)), (String ((Ascii (false,
                false, true, true, false, true, true, false)),
                EmptyString))))))))
         | _ :: _ ->
           String ((Ascii (false, true, false, false, false, true, true,
             false)), (String ((Ascii (true, false, false, false, false,
             true, true, false)), (String ((Ascii (false, false, true, false,
             false, true, true, false)), (String ((Ascii (true, true, false,
             false, false, true, true, false)), (String ((Ascii (true, false,
             false, false, false, true, true, false)), (String ((Ascii (true,
             true, false, false, true, true, true, false)), (String ((Ascii
             (true, false, true, false, false, true, true, false)),
             EmptyString))))))))))))))
      | None ->
        String ((Ascii (false, true, false, false, false, true, true,
          false)), (String ((Ascii (true, false, false, false, false, true,
          true, false)), (String ((Ascii (false, false, true, false, false,
          true, true, false)), (String ((Ascii (true, true, false, false,
          false, true, true, false)), (String ((Ascii (true, false, false,
          false, false, true, true, false)), (String ((Ascii (true, true,
          false, false, true, true, true, false)), (String ((Ascii (true,
          false, true, false, false, true, true, false)),
          EmptyString))))))))))))))
   | None ->
     String ((Ascii (false, true, false, false, false, true, true, false)),
       (String ((Ascii (true, false, false, false, false, true, true,
       false)), (String ((Ascii (false, false, true, false, false, true,
       true, false)), (String ((Ascii (true, true, false, false, false, true,
       true, false)), (String ((Ascii (true, false, false, false, false,
       true, true, false)), (String ((Ascii (true, true, false, false, true,
       true, true, false)), (String ((Ascii (true, false, true, false, false,
       true, true, false)), EmptyString))))))))))))))

(** val run_value2 : string list -> string **)

let run_value2 = function
| [] ->
  String ((Ascii (false, true, false, false, false, true, true, false)),
    (String ((Ascii (true, false, false, false, false, true, true, false)),
    (String ((Ascii (false, false, true, false, false, true, true, false)),
    (String ((Ascii (true, true, false, false, false, true, true, false)),
    (String ((Ascii (true, false, false, false, false, true, true, false)),
    (String ((Ascii (true, true, false, false, true, true, true, false)),
    (String ((Ascii (true, false, true, false, false, true, true, false)),
    EmptyString)))))))))))))
| n0 :: ts' ->
  (match nat_of_string n0 with
   | Some n1 ->
     (match p_yamls n1 ts' with
      | Some p ->
        let (ys, l) = p in
        (match l with
         | [] ->
           (match bind (merge_layers ys) (fun m ->
                    render_with_self run_fuel (VMap m)) with
            | Ok v1 ->
              (match render_with_self run_fuel v1 with
               | Ok v2 ->
                 append (String ((Ascii (true, true, true, true, false, true,
                   true, false)), (String ((Ascii (true, true, false, true,
                   false, true, true, false)), (String ((Ascii (false, false,
                   false, false, false, true, false, false)),
                   EmptyString))))))
                   (append (canon false v1)
                     (append (String ((Ascii (false, false, false, false,
                       false, true, false, false)), (String ((Ascii (false,
                       false, true, true, true, true, true, false)), (String
                       ((Ascii (false, false, true, true, true, true, true,
                       false)), (String ((Ascii (false, false, false, false,
                       false, true, false, false)), EmptyString))))))))
                       (canon false v2)))
               | Err e ->
                 append (String ((Ascii (true, true, true, true, false, true,
                   true, false)), (String ((Ascii (true, true, false, true,
                   false, true, true, false)), (String ((Ascii (false, false,
                   false, false, false, true, false, false)),
                   EmptyString))))))
                   (append (canon false v1)
                     (append (String ((Ascii (false, false, false, false,
                       false, true, false, false)), (String ((Ascii (false,
                       false, true, true, true, true, true, false)), (String
                       ((Ascii (false, false, true, true, true, true, true,
                       false)), (String ((Ascii (false, false, false, false,
                       false, true, false, false)), EmptyString))))))))
                       (canon_res (canon false) (Err e))))
               | Panic s ->
                 append (String ((Ascii (true, true, true, true, false, true,
                   true, false)), (String ((Ascii (true, true, false, true,
                   false, true, true, false)), (String ((Ascii (false, false,
                   false, false, false, true, false, false)),
                   EmptyString))))))
                   (append (canon false v1)
                     (append (String ((Ascii (false, false, false, false,
                       false, true, false, false)), (String ((Ascii (false,
                       false, true, true, true, true, true, false)), (String
                       ((Ascii (false, false, true, true, true, true, true,
                       false)), (String ((Ascii (false, false, false, false,
                       false, true, false, false)), EmptyString))))))))
                       (canon_res (canon false) (Panic s))))
               | OutOfFuel ->
                 append (String ((Ascii (true, true, true, true, false, true,
                   true, false)), (String ((Ascii (true, true, false, true,
                   false, true, true, false)), (String ((Ascii (false, false,
                   false, false, false, true, false, false)),
                   EmptyString))))))
                   (append (canon false v1)
                     (append (String ((Ascii (false, false, false, false,
                       false, true, false, false)), (String ((Ascii (false,
                       false, true, true, true, true, true, false)), (String
                       ((Ascii (false, false, true, true, true, true, true,
                       false)), (String ((Ascii (false, false, false, false,
                       false, true, false, false)), EmptyString))))))))
                       (canon_res (canon false) OutOfFuel))))
            | Err e -> canon_res (canon false) (Err e)
            | Panic s -> canon_res (canon false) (Panic s)
            | OutOfFuel -> canon_res (canon false) OutOfFuel)
         | _ :: _ ->
           String ((Ascii (false, true, false, false, false, true, true,
             false)), (String ((Ascii (true, false, false, false, false,
             true, true, false)), (String ((Ascii (false, false, true, false,
             false, true, true, false)), (String ((Ascii (true, true, false,
             false, false, true, true, false)), (String ((Ascii (true, false,
             false, false, false, true, true, false)), (String ((Ascii (true,
             true, false, false, true, true, true, false)), (String ((Ascii
             (true, false, true, false, false, true, true, false)),
             EmptyString))))))))))))))
      | None ->
        String ((Ascii (false, true, false, false, false, true, true,
          false)), (String ((Ascii (true, false, false, false, false, true,
          true, false)), (String ((Ascii (false, false, true, false, false,
          true, true, false)), (String ((Ascii (true, true, false, false,
          false, true, true, false)), (String ((Ascii (true, false, false,
          false, false, true, true, false)), (String ((Ascii (true, true,
          false, false, true, true, true, false)), (String ((Ascii (true,
          false, true, false, false, true, true, false)),
          EmptyString))))))))))))))
   | None ->
     String ((Ascii (false, true, false, false, false, true, true, false)),
       (String ((Ascii (true, false, false, false, false, true, true,
       false)), (String ((Ascii (false, false, true, false, false, true,
       true, false)), (String ((Ascii (true, true, false, false, false, true,
       true, false)), (String ((Ascii (true, false, false, false, false,
       true, true, false)), (String ((Ascii (true, true, false, false, true,
       true, true, false)), (String ((Ascii (true, false, true, false, false,
       true, true, false)), EmptyString))))))))))))))

(** val run_line4 : string -> string **)

let run_line4 line =
  match words line with
  | [] ->
    String ((Ascii (false, true, false, false, false, true, true, false)),
      (String ((Ascii (true, false, false, false, false, true, true, false)),
      (String ((Ascii (false, false, true, false, false, true, true, false)),
      (String ((Ascii (false, false, true, true, false, true, true, false)),
      (String ((Ascii (true, false, false, true, false, true, true, false)),
      (String ((Ascii (false, true, true, true, false, true, true, false)),
      (String ((Ascii (true, false, true, false, false, true, true, false)),
      EmptyString)))))))))))))
  | id :: l ->
    (match l with
     | [] ->
       String ((Ascii (false, true, false, false, false, true, true, false)),
         (String ((Ascii (true, false, false, false, false, true, true,
         false)), (String ((Ascii (false, false, true, false, false, true,
         true, false)), (String ((Ascii (false, false, true, true, false,
         true, true, false)), (String ((Ascii (true, false, false, true,
         false, true, true, false)), (String ((Ascii (false, true, true,
         true, false, true, true, false)), (String ((Ascii (true, false,
         true, false, false, true, true, false)), EmptyString)))))))))))))
     | mode :: ts ->
       if eqb1 mode (String ((Ascii (true, true, false, false, true, true,
            true, false)), (String ((Ascii (false, false, false, false, true,
            true, true, false)), (String ((Ascii (true, false, true, false,
            false, true, true, false)), (String ((Ascii (true, true, false,
            false, false, true, true, false)), EmptyString))))))))
       then append id (append tab (run_spec ts))
       else if eqb1 mode (String ((Ascii (false, true, true, false, true,
                 true, true, false)), (String ((Ascii (true, false, false,
                 false, false, true, true, false)), (String ((Ascii (false,
                 false, true, true, false, true, true, false)), (String
                 ((Ascii (true, false, true, false, true, true, true,
                 false)), (String ((Ascii (true, false, true, false, false,
                 true, true, false)), (String ((Ascii (false, true, false,
                 false, true, true, false, false)), EmptyString))))))))))))
            then append id (append tab (run_value2 ts))
            else run_line3 line)

(** val p_opt_str : string -> string option option **)

let p_opt_str = function
| EmptyString -> None
| String (a, h) ->
  let Ascii (b, b0, b1, b2, b3, b4, b5, b6) = a in
  if b
  then if b0
       then if b1
            then None
            else if b2
                 then None
                 else if b3
                      then if b4
                           then None
                           else if b5
                                then if b6
                                     then None
                                     else option_map (fun x -> Some x)
                                            (unhex h)
                                else None
                      else None
       else if b1
            then if b2
                 then if b3
                      then None
                      else if b4
                           then if b5
                                then None
                                else if b6
                                     then None
                                     else (match h with
                                           | EmptyString -> Some None
                                           | String (_, _) -> None)
                           else None
                 else None
            else None
  else None

(** val p_opt_bool : string -> bool option option **)

let p_opt_bool t =
  if eqb1 t (String ((Ascii (true, false, true, true, false, true, false,
       false)), EmptyString))
  then Some None
  else option_map (fun x -> Some x) (p_bool t)

(** val p_entries :
    nat -> string list -> ((string * yaml) list * string list) option **)

let rec p_entries n0 ts =
  match n0 with
  | O -> Some ([], ts)
  | S n' ->
    (match ts with
     | [] -> None
     | s :: ts1 ->
       (match s with
        | EmptyString -> None
        | String (a, h) ->
          let Ascii (b, b0, b1, b2, b3, b4, b5, b6) = a in
          if b
          then if b0
               then if b1
                    then None
                    else if b2
                         then None
                         else if b3
                              then if b4
                                   then None
                                   else if b5
                                        then if b6
                                             then None
                                             else (match unhex h with
                                                   | Some k ->
                                                     (match p_yaml (S
                                                              (length ts1))
                                                              ts1 with
                                                      | Some p ->
                                                        let (y, ts2) = p in
                                                        (match p_entries n'
                                                                 ts2 with
                                                         | Some p0 ->
                                                           let (es, ts3) = p0
                                                           in
                                                           Some (((k,
                                                           y) :: es), ts3)
                                                         | None -> None)
                                                      | None -> None)
                                                   | None -> None)
                                        else None
                              else None
               else None
          else None))

(** val p_counted :
    (nat -> string list -> ('a1 * string list) option) -> string list ->
    ('a1 * string list) option **)

let p_counted p = function
| [] -> None
| n0 :: ts' ->
  (match nat_of_string n0 with
   | Some n1 -> p n1 ts'
   | None -> None)

(** val p_ops : nat -> string list -> cop list option **)

let rec p_ops f ts =
  match f with
  | O -> None
  | S f' ->
    (match ts with
     | [] -> Some []
     | op :: ts1 ->
       if eqb1 op (String ((Ascii (false, true, true, true, false, true,
            true, false)), (String ((Ascii (true, false, true, false, false,
            true, true, false)), (String ((Ascii (true, true, true, false,
            true, true, true, false)), EmptyString))))))
       then (match ts1 with
             | [] -> None
             | a :: l ->
               (match l with
                | [] -> None
                | b :: l0 ->
                  (match l0 with
                   | [] -> None
                   | c :: l1 ->
                     (match l1 with
                      | [] -> None
                      | d :: ts2 ->
                        (match p_opt_str a with
                         | Some a0 ->
                           (match p_opt_str b with
                            | Some b0 ->
                              (match p_opt_str c with
                               | Some c0 ->
                                 (match p_opt_bool d with
                                  | Some d0 ->
                                    (match p_ops f' ts2 with
                                     | Some r ->
                                       Some ((ONew (a0, b0, c0, d0)) :: r)
                                     | None -> None)
                                  | None -> None)
                               | None -> None)
                            | None -> None)
                         | None -> None)))))
       else if eqb1 op (String ((Ascii (false, false, true, true, false,
                 true, true, false)), (String ((Ascii (true, true, true,
                 true, false, true, true, false)), (String ((Ascii (true,
                 false, false, false, false, true, true, false)), (String
                 ((Ascii (false, false, true, false, false, true, true,
                 false)), EmptyString))))))))
            then (match ts1 with
                  | [] -> None
                  | s :: ts2 ->
                    (match s with
                     | EmptyString -> None
                     | String (a, h) ->
                       let Ascii (b, b0, b1, b2, b3, b4, b5, b6) = a in
                       if b
                       then if b0
                            then if b1
                                 then None
                                 else if b2
                                      then None
                                      else if b3
                                           then if b4
                                                then None
                                                else if b5
                                                     then if b6
                                                          then None
                                                          else (match 
                                                                unhex h with
                                                                | Some file ->
                                                                  (match 
                                                                   p_counted
                                                                    p_entries
                                                                    ts2 with
                                                                   | Some p ->
                                                                    let (
                                                                    es, ts3) =
                                                                    p
                                                                    in
                                                                    option_map
                                                                    (fun x ->
                                                                    (OLoad
                                                                    (file,
                                                                    es)) :: x)
                                                                    (p_ops f'
                                                                    ts3)
                                                                   | None ->
                                                                    None)
                                                                | None -> None)
                                                     else None
                                           else None
                            else None
                       else None))
            else if eqb1 op (String ((Ascii (false, false, true, false,
                      false, true, true, false)), (String ((Ascii (true,
                      false, false, true, false, true, true, false)), (String
                      ((Ascii (true, true, false, false, false, true, true,
                      false)), (String ((Ascii (false, false, true, false,
                      true, true, true, false)), EmptyString))))))))
                 then (match ts1 with
                       | [] -> None
                       | s :: ts2 ->
                         (match s with
                          | EmptyString -> None
                          | String (a, h) ->
                            let Ascii (b, b0, b1, b2, b3, b4, b5, b6) = a in
                            if b
                            then if b0
                                 then if b1
                                      then None
                                      else if b2
                                           then None
                                           else if b3
                                                then if b4
                                                     then None
                                                     else if b5
                                                          then if b6
                                                               then None
                                                               else (match 
                                                                    unhex h with
                                                                    | Some inv ->
                                                                    (match 
                                                                    p_counted
                                                                    p_entries
                                                                    ts2 with
                                                                    | Some p ->
                                                                    let (
                                                                    es, ts3) =
                                                                    p
                                                                    in
                                                                    option_map
                                                                    (fun x ->
                                                                    (ODict
                                                                    (inv,
                                                                    es)) :: x)
                                                                    (p_ops f'
                                                                    ts3)
                                                                    | None ->
                                                                    None)
                                                                    | None ->
                                                                    None)
                                                          else None
                                                else None
                                 else None
                            else None))
                 else if eqb1 op (String ((Ascii (false, true, false, false,
                           true, true, true, false)), (String ((Ascii (true,
                           false, true, false, false, true, true, false)),
                           (String ((Ascii (true, true, true, false, false,
                           true, true, false)), (String ((Ascii (true, false,
                           true, false, false, true, true, false)), (String
                           ((Ascii (false, false, false, true, true, true,
                           true, false)), (String ((Ascii (false, false,
                           false, false, true, true, true, false)),
                           EmptyString))))))))))))
                      then (match p_counted p_strs ts1 with
                            | Some p ->
                              let (ps, ts2) = p in
                              option_map (fun x -> (OSetRegexp ps) :: x)
                                (p_ops f' ts2)
                            | None -> None)
                      else if eqb1 op (String ((Ascii (true, false, false,
                                true, false, true, true, false)), (String
                                ((Ascii (true, true, true, false, false,
                                true, true, false)), (String ((Ascii (false,
                                true, true, true, false, true, true, false)),
                                (String ((Ascii (true, true, true, true,
                                false, true, true, false)), (String ((Ascii
                                (false, true, false, false, true, true, true,
                                false)), (String ((Ascii (true, false, true,
                                false, false, true, true, false)),
                                EmptyString))))))))))))
                           then (match ts1 with
                                 | [] -> None
                                 | b :: ts2 ->
                                   (match p_bool b with
                                    | Some b0 ->
                                      option_map (fun x -> (OSetIgnore
                                        b0) :: x) (p_ops f' ts2)
                                    | None -> None))
                           else if eqb1 op (String ((Ascii (true, true,
                                     false, false, false, true, true,
                                     false)), (String ((Ascii (true, true,
                                     true, true, false, true, true, false)),
                                     (String ((Ascii (true, false, true,
                                     true, false, true, true, false)),
                                     (String ((Ascii (false, false, false,
                                     false, true, true, true, false)),
                                     (String ((Ascii (true, true, true, true,
                                     false, true, true, false)), (String
                                     ((Ascii (true, true, false, false, true,
                                     true, true, false)), (String ((Ascii
                                     (true, false, true, false, false, true,
                                     true, false)), EmptyString))))))))))))))
                                then (match ts1 with
                                      | [] -> None
                                      | b :: ts2 ->
                                        (match p_bool b with
                                         | Some b0 ->
                                           option_map (fun x -> (OSetCompose
                                             b0) :: x) (p_ops f' ts2)
                                         | None -> None))
                                else if eqb1 op (String ((Ascii (true, true,
                                          false, false, true, true, true,
                                          false)), (String ((Ascii (true,
                                          false, true, false, false, true,
                                          true, false)), (String ((Ascii
                                          (false, false, true, false, true,
                                          true, true, false)), (String
                                          ((Ascii (false, true, true, false,
                                          false, true, true, false)), (String
                                          ((Ascii (false, false, true, true,
                                          false, true, true, false)), (String
                                          ((Ascii (true, false, false, false,
                                          false, true, true, false)), (String
                                          ((Ascii (true, true, true, false,
                                          false, true, true, false)),
                                          EmptyString))))))))))))))
                                     then option_map (fun x -> OSetFlag :: x)
                                            (p_ops f' ts1)
                                     else if eqb1 op (String ((Ascii (true,
                                               false, true, false, true,
                                               true, true, false)), (String
                                               ((Ascii (false, true, true,
                                               true, false, true, true,
                                               false)), (String ((Ascii
                                               (true, true, false, false,
                                               true, true, true, false)),
                                               (String ((Ascii (true, false,
                                               true, false, false, true,
                                               true, false)), (String ((Ascii
                                               (false, false, true, false,
                                               true, true, true, false)),
                                               (String ((Ascii (false, true,
                                               true, false, false, true,
                                               true, false)), (String ((Ascii
                                               (false, false, true, true,
                                               false, true, true, false)),
                                               (String ((Ascii (true, false,
                                               false, false, false, true,
                                               true, false)), (String ((Ascii
                                               (true, true, true, false,
                                               false, true, true, false)),
                                               EmptyString))))))))))))))))))
                                          then option_map (fun x ->
                                                 OUnsetFlag :: x)
                                                 (p_ops f' ts1)
                                          else if eqb1 op (String ((Ascii
                                                    (true, true, false,
                                                    false, false, true, true,
                                                    false)), (String ((Ascii
                                                    (false, false, true,
                                                    true, false, true, true,
                                                    false)), (String ((Ascii
                                                    (true, false, true,
                                                    false, false, true, true,
                                                    false)), (String ((Ascii
                                                    (true, false, false,
                                                    false, false, true, true,
                                                    false)), (String ((Ascii
                                                    (false, true, false,
                                                    false, true, true, true,
                                                    false)), (String ((Ascii
                                                    (false, true, true,
                                                    false, false, true, true,
                                                    false)), (String ((Ascii
                                                    (false, false, true,
                                                    true, false, true, true,
                                                    false)), (String ((Ascii
                                                    (true, false, false,
                                                    false, false, true, true,
                                                    false)), (String ((Ascii
                                                    (true, true, true, false,
                                                    false, true, true,
                                                    false)), (String ((Ascii
                                                    (true, true, false,
                                                    false, true, true, true,
                                                    false)),
                                                    EmptyString))))))))))))))))))))
                                               then option_map (fun x ->
                                                      OClearFlags :: x)
                                                      (p_ops f' ts1)
                                               else None)

(** val pair_up : string list -> (string * string) list **)

let rec pair_up = function
| [] -> []
| a :: l0 -> (match l0 with
              | [] -> []
              | b :: l' -> (a, b) :: (pair_up l'))

(** val tf : bool -> string **)

let tf = function
| true ->
  String ((Ascii (false, false, true, false, true, false, true, false)),
    EmptyString)
| false ->
  String ((Ascii (false, true, true, false, false, false, true, false)),
    EmptyString)

(** val canon_config :
    (string -> string -> bool) -> string list -> config -> string **)

let canon_config matches probes c =
  append (hx c.cf_inv)
    (append (String ((Ascii (false, false, false, false, false, true, false,
      false)), EmptyString))
      (append (hx c.cf_nodes)
        (append (String ((Ascii (false, false, false, false, false, true,
          false, false)), EmptyString))
          (append (hx c.cf_classes)
            (append (String ((Ascii (false, false, false, false, false, true,
              false, false)), EmptyString))
              (append (tf c.cf_ignore)
                (append (tf c.cf_compose)
                  (append (tf c.cf_dots)
                    (append (String ((Ascii (false, false, false, false,
                      false, true, false, false)), EmptyString))
                      (append (canon_strs c.cf_reported)
                        (append (String ((Ascii (false, false, false, false,
                          false, true, false, false)), (String ((Ascii
                          (false, true, false, false, false, false, true,
                          false)), EmptyString))))
                          (concat_str
                            (map (fun n0 ->
                              tf (is_class_ignored matches c n0)) probes)))))))))))))

(** val default_config : config **)

let default_config =
  { cf_inv = EmptyString; cf_nodes = EmptyString; cf_classes = EmptyString;
    cf_ignore = false; cf_compose = false; cf_reported = []; cf_compiled =
    []; cf_dots = false }

(** val run_config : string list -> string **)

let run_config ts =
  match p_counted p_strs ts with
  | Some p ->
    let (bad, ts1) = p in
    (match p_counted p_strs ts1 with
     | Some p0 ->
       let (mflat, ts2) = p0 in
       (match p_counted p_strs ts2 with
        | Some p1 ->
          let (probes, ts3) = p1 in
          (match p_ops (S (length ts3)) ts3 with
           | Some ops ->
             let compiles = fun p2 -> negb (mem p2 bad) in
             let mp = pair_up mflat in
             let matches = fun p2 n0 ->
               existsb (fun pat ->
                 let (a, b) = pat in (&&) (eqb1 a p2) (eqb1 b n0)) mp
             in
             let go =
               let rec go ops0 c started =
                 match ops0 with
                 | [] -> EmptyString
                 | o :: ops' ->
                   let (c', ok) = cfg_step compiles c o in
                   let started' = (||) started ok in
                   append
                     (if ok
                      then String ((Ascii (false, false, false, false, false,
                             true, false, false)), (String ((Ascii (false,
                             false, true, true, true, true, true, false)),
                             (String ((Ascii (false, false, false, false,
                             false, true, false, false)), (String ((Ascii
                             (true, true, true, true, false, true, true,
                             false)), (String ((Ascii (true, true, false,
                             true, false, true, true, false)), (String
                             ((Ascii (false, false, false, false, false,
                             true, false, false)), EmptyString)))))))))))
                      else String ((Ascii (false, false, false, false, false,
                             true, false, false)), (String ((Ascii (false,
                             false, true, true, true, true, true, false)),
                             (String ((Ascii (false, false, false, false,
                             false, true, false, false)), (String ((Ascii
                             (true, false, true, false, false, true, true,
                             false)), (String ((Ascii (false, true, false,
                             false, true, true, true, false)), (String
                             ((Ascii (false, true, false, false, true, true,
                             true, false)), (String ((Ascii (false, false,
                             false, false, false, true, false, false)),
                             EmptyString))))))))))))))
                     (append
                       (if started'
                        then canon_config matches probes c'
                        else String ((Ascii (true, false, true, true, false,
                               true, false, false)), EmptyString))
                       (go ops' c' started'))
               in go
             in
             append (String ((Ascii (true, true, true, true, false, true,
               true, false)), (String ((Ascii (true, true, false, true,
               false, true, true, false)), EmptyString))))
               (go ops default_config false)
           | None ->
             String ((Ascii (false, true, false, false, false, true, true,
               false)), (String ((Ascii (true, false, false, false, false,
               true, true, false)), (String ((Ascii (false, false, true,
               false, false, true, true, false)), (String ((Ascii (true,
               true, false, false, false, true, true, false)), (String
               ((Ascii (true, false, false, false, false, true, true,
               false)), (String ((Ascii (true, true, false, false, true,
               true, true, false)), (String ((Ascii (true, false, true,
               false, false, true, true, false)), EmptyString))))))))))))))
        | None ->
          String ((Ascii (false, true, false, false, false, true, true,
            false)), (String ((Ascii (true, false, false, false, false, true,
            true, false)), (String ((Ascii (false, false, true, false, false,
            true, true, false)), (String ((Ascii (true, true, false, false,
            false, true, true, false)), (String ((Ascii (true, false, false,
            false, false, true, true, false)), (String ((Ascii (true, true,
            false, false, true, true, true, false)), (String ((Ascii (true,
            false, true, false, false, true, true, false)),
            EmptyString))))))))))))))
     | None ->
       String ((Ascii (false, true, false, false, false, true, true, false)),
         (String ((Ascii (true, false, false, false, false, true, true,
         false)), (String ((Ascii (false, false, true, false, false, true,
         true, false)), (String ((Ascii (true, true, false, false, false,
         true, true, false)), (String ((Ascii (true, false, false, false,
         false, true, true, false)), (String ((Ascii (true, true, false,
         false, true, true, true, false)), (String ((Ascii (true, false,
         true, false, false, true, true, false)), EmptyString))))))))))))))
  | None ->
    String ((Ascii (false, true, false, false, false, true, true, false)),
      (String ((Ascii (true, false, false, false, false, true, true, false)),
      (String ((Ascii (false, false, true, false, false, true, true, false)),
      (String ((Ascii (true, true, false, false, false, true, true, false)),
      (String ((Ascii (true, false, false, false, false, true, true, false)),
      (String ((Ascii (true, true, false, false, true, true, true, false)),
      (String ((Ascii (true, false, true, false, false, true, true, false)),
      EmptyString)))))))))))))

(** val run_line5 : string -> string **)

let run_line5 line =
  match words line with
  | [] ->
    String ((Ascii (false, true, false, false, false, true, true, false)),
      (String ((Ascii (true, false, false, false, false, true, true, false)),
      (String ((Ascii (false, false, true, false, false, true, true, false)),
      (String ((Ascii (false, false, true, true, false, true, true, false)),
      (String ((Ascii (true, false, false, true, false, true, true, false)),
      (String ((Ascii (false, true, true, true, false, true, true, false)),
      (String ((Ascii (true, false, true, false, false, true, true, false)),
      EmptyString)))))))))))))
  | id :: l ->
    (match l with
     | [] ->
       String ((Ascii (false, true, false, false, false, true, true, false)),
         (String ((Ascii (true, false, false, false, false, true, true,
         false)), (String ((Ascii (false, false, true, false, false, true,
         true, false)), (String ((Ascii (false, false, true, true, false,
         true, true, false)), (String ((Ascii (true, false, false, true,
         false, true, true, false)), (String ((Ascii (false, true, true,
         true, false, true, true, false)), (String ((Ascii (true, false,
         true, false, false, true, true, false)), EmptyString)))))))))))))
     | mode :: ts ->
       if eqb1 mode (String ((Ascii (true, true, false, false, false, true,
            true, false)), (String ((Ascii (true, true, true, true, false,
            true, true, false)), (String ((Ascii (false, true, true, true,
            false, true, true, false)), (String ((Ascii (false, true, true,
            false, false, true, true, false)), (String ((Ascii (true, false,
            false, true, false, true, true, false)), (String ((Ascii (true,
            true, true, false, false, true, true, false)),
            EmptyString))))))))))))
       then append id (append tab (run_config ts))
       else run_line4 line)

(** val canon_py : pyobj -> string **)

let rec canon_py = function
| PyNone ->
  String ((Ascii (false, true, true, true, false, false, true, false)),
    EmptyString)
| PyBool b ->
  if b
  then String ((Ascii (false, false, true, false, true, false, true, false)),
         EmptyString)
  else String ((Ascii (false, true, true, false, false, false, true, false)),
         EmptyString)
| PyInt z0 ->
  append (String ((Ascii (true, false, false, true, false, false, true,
    false)), EmptyString)) (z_to_string z0)
| PyFloat _ ->
  String ((Ascii (false, false, true, false, false, false, true, false)),
    (String ((Ascii (true, true, true, true, true, true, false, false)),
    EmptyString)))
| PyStr s ->
  append (String ((Ascii (true, false, false, false, true, false, true,
    false)), EmptyString)) (hex s)
| PyList l ->
  append
    (append (String ((Ascii (false, false, true, true, false, false, true,
      false)), EmptyString)) (nat_to_string (length l)))
    (let rec go = function
     | [] -> EmptyString
     | x :: xs ->
       append (String ((Ascii (false, false, false, false, false, true,
         false, false)), EmptyString)) (append (canon_py x) (go xs))
     in go l)
| PyDict es ->
  append
    (append (String ((Ascii (true, false, true, true, false, false, true,
      false)), EmptyString)) (nat_to_string (length es)))
    (let rec go = function
     | [] -> EmptyString
     | p :: es' ->
       let (k, x) = p in
       append (String ((Ascii (false, false, false, false, false, true,
         false, false)), EmptyString))
         (append (canon_py k)
           (append (String ((Ascii (false, false, false, false, false, true,
             false, false)), EmptyString)) (append (canon_py x) (go es'))))
     in go es)

(** val run_pynode : string list -> string **)

let run_pynode = function
| [] ->
  String ((Ascii (false, true, false, false, false, true, true, false)),
    (String ((Ascii (true, false, false, false, false, true, true, false)),
    (String ((Ascii (false, false, true, false, false, true, true, false)),
    (String ((Ascii (true, true, false, false, false, true, true, false)),
    (String ((Ascii (true, false, false, false, false, true, true, false)),
    (String ((Ascii (true, true, false, false, true, true, true, false)),
    (String ((Ascii (true, false, true, false, false, true, true, false)),
    EmptyString)))))))))))))
| ig :: l ->
  (match l with
   | [] ->
     String ((Ascii (false, true, false, false, false, true, true, false)),
       (String ((Ascii (true, false, false, false, false, true, true,
       false)), (String ((Ascii (false, false, true, false, false, true,
       true, false)), (String ((Ascii (true, true, false, false, false, true,
       true, false)), (String ((Ascii (true, false, false, false, false,
       true, true, false)), (String ((Ascii (true, true, false, false, true,
       true, true, false)), (String ((Ascii (true, false, true, false, false,
       true, true, false)), EmptyString)))))))))))))
   | co :: l0 ->
     (match l0 with
      | [] ->
        String ((Ascii (false, true, false, false, false, true, true,
          false)), (String ((Ascii (true, false, false, false, false, true,
          true, false)), (String ((Ascii (false, false, true, false, false,
          true, true, false)), (String ((Ascii (true, true, false, false,
          false, true, true, false)), (String ((Ascii (true, false, false,
          false, false, true, true, false)), (String ((Ascii (true, true,
          false, false, true, true, true, false)), (String ((Ascii (true,
          false, true, false, false, true, true, false)),
          EmptyString)))))))))))))
      | dots :: ts1 ->
        (match p_bool ig with
         | Some ig0 ->
           (match p_bool co with
            | Some co0 ->
              (match p_bool dots with
               | Some dots0 ->
                 (match p_counted p_strs ts1 with
                  | Some p ->
                    let (_, ts2) = p in
                    (match p_counted p_strs ts2 with
                     | Some p0 ->
                       let (matches, ts3) = p0 in
                       (match p_count_files ts3 with
                        | Some p1 ->
                          let (cfiles, ts4) = p1 in
                          (match p_count_files ts4 with
                           | Some p2 ->
                             let (nfiles, l1) = p2 in
                             (match l1 with
                              | [] ->
                                String ((Ascii (false, true, false, false,
                                  false, true, true, false)), (String ((Ascii
                                  (true, false, false, false, false, true,
                                  true, false)), (String ((Ascii (false,
                                  false, true, false, false, true, true,
                                  false)), (String ((Ascii (true, true,
                                  false, false, false, true, true, false)),
                                  (String ((Ascii (true, false, false, false,
                                  false, true, true, false)), (String ((Ascii
                                  (true, true, false, false, true, true,
                                  true, false)), (String ((Ascii (true,
                                  false, true, false, false, true, true,
                                  false)), EmptyString)))))))))))))
                              | _ :: l2 ->
                                (match l2 with
                                 | [] ->
                                   String ((Ascii (false, true, false, false,
                                     false, true, true, false)), (String
                                     ((Ascii (true, false, false, false,
                                     false, true, true, false)), (String
                                     ((Ascii (false, false, true, false,
                                     false, true, true, false)), (String
                                     ((Ascii (true, true, false, false,
                                     false, true, true, false)), (String
                                     ((Ascii (true, false, false, false,
                                     false, true, true, false)), (String
                                     ((Ascii (true, true, false, false, true,
                                     true, true, false)), (String ((Ascii
                                     (true, false, true, false, false, true,
                                     true, false)), EmptyString)))))))))))))
                                 | s :: l3 ->
                                   (match s with
                                    | EmptyString ->
                                      String ((Ascii (false, true, false,
                                        false, false, true, true, false)),
                                        (String ((Ascii (true, false, false,
                                        false, false, true, true, false)),
                                        (String ((Ascii (false, false, true,
                                        false, false, true, true, false)),
                                        (String ((Ascii (true, true, false,
                                        false, false, true, true, false)),
                                        (String ((Ascii (true, false, false,
                                        false, false, true, true, false)),
                                        (String ((Ascii (true, true, false,
                                        false, true, true, true, false)),
                                        (String ((Ascii (true, false, true,
                                        false, false, true, true, false)),
                                        EmptyString)))))))))))))
                                    | String (a, h) ->
                                      let Ascii (b, b0, b1, b2, b3, b4, b5, b6) =
                                        a
                                      in
                                      if b
                                      then if b0
                                           then if b1
                                                then String ((Ascii (false,
                                                       true, false, false,
                                                       false, true, true,
                                                       false)), (String
                                                       ((Ascii (true, false,
                                                       false, false, false,
                                                       true, true, false)),
                                                       (String ((Ascii
                                                       (false, false, true,
                                                       false, false, true,
                                                       true, false)), (String
                                                       ((Ascii (true, true,
                                                       false, false, false,
                                                       true, true, false)),
                                                       (String ((Ascii (true,
                                                       false, false, false,
                                                       false, true, true,
                                                       false)), (String
                                                       ((Ascii (true, true,
                                                       false, false, true,
                                                       true, true, false)),
                                                       (String ((Ascii (true,
                                                       false, true, false,
                                                       false, true, true,
                                                       false)),
                                                       EmptyString)))))))))))))
                                                else if b2
                                                     then String ((Ascii
                                                            (false, true,
                                                            false, false,
                                                            false, true,
                                                            true, false)),
                                                            (String ((Ascii
                                                            (true, false,
                                                            false, false,
                                                            false, true,
                                                            true, false)),
                                                            (String ((Ascii
                                                            (false, false,
                                                            true, false,
                                                            false, true,
                                                            true, false)),
                                                            (String ((Ascii
                                                            (true, true,
                                                            false, false,
                                                            false, true,
                                                            true, false)),
                                                            (String ((Ascii
                                                            (true, false,
                                                            false, false,
                                                            false, true,
                                                            true, false)),
                                                            (String ((Ascii
                                                            (true, true,
                                                            false, false,
                                                            true, true, true,
                                                            false)), (String
                                                            ((Ascii (true,
                                                            false, true,
                                                            false, false,
                                                            true, true,
                                                            false)),
                                                            EmptyString)))))))))))))
                                                     else if b3
                                                          then if b4
                                                               then String
                                                                    ((Ascii
                                                                    (false,
                                                                    true,
                                                                    false,
                                                                    false,
                                                                    false,
                                                                    true,
                                                                    true,
                                                                    false)),
                                                                    (String
                                                                    ((Ascii
                                                                    (true,
                                                                    false,
                                                                    false,
                                                                    false,
                                                                    false,
                                                                    true,
                                                                    true,
                                                                    false)),
                                                                    (String
                                                                    ((Ascii
                                                                    (false,
                                                                    false,
                                                                    true,
                                                                    false,
                                                                    false,
                                                                    true,
                                                                    true,
                                                                    false)),
                                                                    (String
                                                                    ((Ascii
                                                                    (true,
                                                                    true,
                                                                    false,
                                                                    false,
                                                                    false,
                                                                    true,
                                                                    true,
                                                                    false)),
                                                                    (String
                                                                    ((Ascii
                                                                    (true,
                                                                    false,
                                                                    false,
                                                                    false,
                                                                    false,
                                                                    true,
                                                                    true,
                                                                    false)),
                                                                    (String
                                                                    ((Ascii
                                                                    (true,
                                                                    true,
                                                                    false,
                                                                    false,
                                                                    true,
                                                                    true,
                                                                    true,
                                                                    false)),
                                                                    (String
                                                                    ((Ascii
                                                                    (true,
                                                                    false,
                                                                    true,
                                                                    false,
                                                                    false,
                                                                    true,
                                                                    true,
                                                                    false)),
                                                                    EmptyString)))))))))))))
                                                               else if b5
                                                                    then 
                                                                    if b6
                                                                    then 
                                                                    String
                                                                    ((Ascii
                                                                    (false,
                                                                    true,
                                                                    false,
                                                                    false,
                                                                    false,
                                                                    true,
                                                                    true,
                                                                    false)),
                                                                    (String
                                                                    ((Ascii
                                                                    (true,
                                                                    false,
                                                                    false,
                                                                    false,
                                                                    false,
                                                                    true,
                                                                    true,
                                                                    false)),
                                                                    (String
                                                                    ((Ascii
                                                                    (false,
                                                                    false,
                                                                    true,
                                                                    false,
                                                                    false,
                                                                    true,
                                                                    true,
                                                                    false)),
                                                                    (String
                                                                    ((Ascii
                                                                    (true,
                                                                    true,
                                                                    false,
                                                                    false,
                                                                    false,
                                                                    true,
                                                                    true,
                                                                    false)),
                                                                    (String
                                                                    ((Ascii
                                                                    (true,
                                                                    false,
                                                                    false,
                                                                    false,
                                                                    false,
                                                                    true,
                                                                    true,
                                                                    false)),
                                                                    (String
                                                                    ((Ascii
                                                                    (true,
                                                                    true,
                                                                    false,
                                                                    false,
                                                                    true,
                                                                    true,
                                                                    true,
                                                                    false)),
                                                                    (String
                                                                    ((Ascii
                                                                    (true,
                                                                    false,
                                                                    true,
                                                                    false,
                                                                    false,
                                                                    true,
                                                                    true,
                                                                    false)),
                                                                    EmptyString)))))))))))))
                                                                    else 
                                                                    (match l3 with
                                                                    | [] ->
                                                                    (match 
                                                                    unhex h with
                                                                    | Some name ->
                                                                    let cfg =
                                                                    { c_ignore =
                                                                    ig0;
                                                                    c_matches =
                                                                    matches;
                                                                    c_compose =
                                                                    co0;
                                                                    c_literal_dots =
                                                                    dots0 }
                                                                    in
                                                                    (
                                                                    match 
                                                                    bind
                                                                    (bind
                                                                    (node_table
                                                                    co0
                                                                    nfiles)
                                                                    (fun nt ->
                                                                    bind
                                                                    (class_table
                                                                    cfiles)
                                                                    (fun ct ->
                                                                    Ok (nt,
                                                                    ct))))
                                                                    (fun pat ->
                                                                    let (
                                                                    nt, ct) =
                                                                    pat
                                                                    in
                                                                    render_node
                                                                    inc_fuel
                                                                    run_fuel
                                                                    cfg
                                                                    (String
                                                                    ((Ascii
                                                                    (false,
                                                                    false,
                                                                    true,
                                                                    true,
                                                                    true,
                                                                    true,
                                                                    false,
                                                                    false)),
                                                                    (String
                                                                    ((Ascii
                                                                    (false,
                                                                    true,
                                                                    true,
                                                                    true,
                                                                    false,
                                                                    false,
                                                                    true,
                                                                    false)),
                                                                    (String
                                                                    ((Ascii
                                                                    (true,
                                                                    true,
                                                                    true,
                                                                    true,
                                                                    false,
                                                                    false,
                                                                    true,
                                                                    false)),
                                                                    (String
                                                                    ((Ascii
                                                                    (false,
                                                                    false,
                                                                    true,
                                                                    false,
                                                                    false,
                                                                    false,
                                                                    true,
                                                                    false)),
                                                                    (String
                                                                    ((Ascii
                                                                    (true,
                                                                    false,
                                                                    true,
                                                                    false,
                                                                    false,
                                                                    false,
                                                                    true,
                                                                    false)),
                                                                    (String
                                                                    ((Ascii
                                                                    (true,
                                                                    true,
                                                                    false,
                                                                    false,
                                                                    true,
                                                                    false,
                                                                    true,
                                                                    false)),
                                                                    (String
                                                                    ((Ascii
                                                                    (false,
                                                                    true,
                                                                    true,
                                                                    true,
                                                                    true,
                                                                    true,
                                                                    false,
                                                                    false)),
                                                                    EmptyString))))))))))))))
                                                                    nt ct name) with
                                                                    | Ok i ->
                                                                    (match 
                                                                    as_py_obj
                                                                    (VMap
                                                                    i.ni_params) with
                                                                    | PyOk o ->
                                                                    append
                                                                    (String
                                                                    ((Ascii
                                                                    (true,
                                                                    true,
                                                                    true,
                                                                    true,
                                                                    false,
                                                                    true,
                                                                    true,
                                                                    false)),
                                                                    (String
                                                                    ((Ascii
                                                                    (true,
                                                                    true,
                                                                    false,
                                                                    true,
                                                                    false,
                                                                    true,
                                                                    true,
                                                                    false)),
                                                                    (String
                                                                    ((Ascii
                                                                    (false,
                                                                    false,
                                                                    false,
                                                                    false,
                                                                    false,
                                                                    true,
                                                                    false,
                                                                    false)),
                                                                    (String
                                                                    ((Ascii
                                                                    (false,
                                                                    false,
                                                                    false,
                                                                    false,
                                                                    true,
                                                                    false,
                                                                    true,
                                                                    false)),
                                                                    (String
                                                                    ((Ascii
                                                                    (false,
                                                                    false,
                                                                    false,
                                                                    false,
                                                                    false,
                                                                    true,
                                                                    false,
                                                                    false)),
                                                                    EmptyString))))))))))
                                                                    (append
                                                                    (canon_py
                                                                    o)
                                                                    (append
                                                                    (String
                                                                    ((Ascii
                                                                    (false,
                                                                    false,
                                                                    false,
                                                                    false,
                                                                    false,
                                                                    true,
                                                                    false,
                                                                    false)),
                                                                    (String
                                                                    ((Ascii
                                                                    (true,
                                                                    true,
                                                                    false,
                                                                    false,
                                                                    false,
                                                                    false,
                                                                    true,
                                                                    false)),
                                                                    (String
                                                                    ((Ascii
                                                                    (false,
                                                                    false,
                                                                    false,
                                                                    false,
                                                                    false,
                                                                    true,
                                                                    false,
                                                                    false)),
                                                                    EmptyString))))))
                                                                    (append
                                                                    (canon_strs
                                                                    i.ni_classes)
                                                                    (append
                                                                    (String
                                                                    ((Ascii
                                                                    (false,
                                                                    false,
                                                                    false,
                                                                    false,
                                                                    false,
                                                                    true,
                                                                    false,
                                                                    false)),
                                                                    (String
                                                                    ((Ascii
                                                                    (true,
                                                                    false,
                                                                    false,
                                                                    false,
                                                                    false,
                                                                    false,
                                                                    true,
                                                                    false)),
                                                                    (String
                                                                    ((Ascii
                                                                    (false,
                                                                    false,
                                                                    false,
                                                                    false,
                                                                    false,
                                                                    true,
                                                                    false,
                                                                    false)),
                                                                    EmptyString))))))
                                                                    (canon_strs
                                                                    i.ni_apps)))))
                                                                    | PyTypeError ->
                                                                    String
                                                                    ((Ascii
                                                                    (false,
                                                                    true,
                                                                    false,
                                                                    false,
                                                                    true,
                                                                    true,
                                                                    true,
                                                                    false)),
                                                                    (String
                                                                    ((Ascii
                                                                    (true,
                                                                    false,
                                                                    false,
                                                                    false,
                                                                    false,
                                                                    true,
                                                                    true,
                                                                    false)),
                                                                    (String
                                                                    ((Ascii
                                                                    (true,
                                                                    false,
                                                                    false,
                                                                    true,
                                                                    false,
                                                                    true,
                                                                    true,
                                                                    false)),
                                                                    (String
                                                                    ((Ascii
                                                                    (true,
                                                                    true,
                                                                    false,
                                                                    false,
                                                                    true,
                                                                    true,
                                                                    true,
                                                                    false)),
                                                                    (String
                                                                    ((Ascii
                                                                    (true,
                                                                    false,
                                                                    true,
                                                                    false,
                                                                    false,
                                                                    true,
                                                                    true,
                                                                    false)),
                                                                    (String
                                                                    ((Ascii
                                                                    (false,
                                                                    false,
                                                                    false,
                                                                    false,
                                                                    false,
                                                                    true,
                                                                    false,
                                                                    false)),
                                                                    (String
                                                                    ((Ascii
                                                                    (false,
                                                                    false,
                                                                    true,
                                                                    false,
                                                                    true,
                                                                    false,
                                                                    true,
                                                                    false)),
                                                                    (String
                                                                    ((Ascii
                                                                    (true,
                                                                    false,
                                                                    false,
                                                                    true,
                                                                    true,
                                                                    true,
                                                                    true,
                                                                    false)),
                                                                    (String
                                                                    ((Ascii
                                                                    (false,
                                                                    false,
                                                                    false,
                                                                    false,
                                                                    true,
                                                                    true,
                                                                    true,
                                                                    false)),
                                                                    (String
                                                                    ((Ascii
                                                                    (true,
                                                                    false,
                                                                    true,
                                                                    false,
                                                                    false,
                                                                    true,
                                                                    true,
                                                                    false)),
                                                                    (String
                                                                    ((Ascii
                                                                    (true,
                                                                    false,
                                                                    true,
                                                                    false,
                                                                    false,
                                                                    false,
                                                                    true,
                                                                    false)),
                                                                    (String
                                                                    ((Ascii
                                                                    (false,
                                                                    true,
                                                                    false,
                                                                    false,
                                                                    true,
                                                                    true,
                                                                    true,
                                                                    false)),
                                                                    (String
                                                                    ((Ascii
                                                                    (false,
                                                                    true,
                                                                    false,
                                                                    false,
                                                                    true,
                                                                    true,
                                                                    true,
                                                                    false)),
                                                                    (String
                                                                    ((Ascii
                                                                    (true,
                                                                    true,
                                                                    true,
                                                                    true,
                                                                    false,
                                                                    true,
                                                                    true,
                                                                    false)),
                                                                    (String
                                                                    ((Ascii
                                                                    (false,
                                                                    true,
                                                                    false,
                                                                    false,
                                                                    true,
                                                                    true,
                                                                    true,
                                                                    false)),
                                                                    EmptyString)))))))))))))))))))))))))))))
                                                                    | PyPanic ->
                                                                    String
                                                                    ((Ascii
                                                                    (false,
                                                                    false,
                                                                    false,
                                                                    false,
                                                                    true,
                                                                    true,
                                                                    true,
                                                                    false)),
                                                                    (String
                                                                    ((Ascii
                                                                    (true,
                                                                    false,
                                                                    false,
                                                                    false,
                                                                    false,
                                                                    true,
                                                                    true,
                                                                    false)),
                                                                    (String
                                                                    ((Ascii
                                                                    (false,
                                                                    true,
                                                                    true,
                                                                    true,
                                                                    false,
                                                                    true,
                                                                    true,
                                                                    false)),
                                                                    (String
                                                                    ((Ascii
                                                                    (true,
                                                                    false,
                                                                    false,
                                                                    true,
                                                                    false,
                                                                    true,
                                                                    true,
                                                                    false)),
                                                                    (String
                                                                    ((Ascii
                                                                    (true,
                                                                    true,
                                                                    false,
                                                                    false,
                                                                    false,
                                                                    true,
                                                                    true,
                                                                    false)),
                                                                    (String
                                                                    ((Ascii
                                                                    (false,
                                                                    false,
                                                                    false,
                                                                    false,
                                                                    false,
                                                                    true,
                                                                    false,
                                                                    false)),
                                                                    (String
                                                                    ((Ascii
                                                                    (false,
                                                                    false,
                                                                    false,
                                                                    false,
                                                                    true,
                                                                    false,
                                                                    true,
                                                                    false)),
                                                                    (String
                                                                    ((Ascii
                                                                    (true,
                                                                    false,
                                                                    false,
                                                                    true,
                                                                    true,
                                                                    true,
                                                                    true,
                                                                    false)),
                                                                    (String
                                                                    ((Ascii
                                                                    (false,
                                                                    true,
                                                                    true,
                                                                    false,
                                                                    true,
                                                                    false,
                                                                    true,
                                                                    false)),
                                                                    (String
                                                                    ((Ascii
                                                                    (true,
                                                                    false,
                                                                    false,
                                                                    false,
                                                                    false,
                                                                    true,
                                                                    true,
                                                                    false)),
                                                                    (String
                                                                    ((Ascii
                                                                    (false,
                                                                    false,
                                                                    true,
                                                                    true,
                                                                    false,
                                                                    true,
                                                                    true,
                                                                    false)),
                                                                    (String
                                                                    ((Ascii
                                                                    (true,
                                                                    false,
                                                                    true,
                                                                    false,
                                                                    true,
                                                                    true,
                                                                    true,
                                                                    false)),
                                                                    (String
                                                                    ((Ascii
                                                                    (true,
                                                                    false,
                                                                    true,
                                                                    false,
                                                                    false,
                                                                    true,
                                                                    true,
                                                                    false)),
                                                                    (String
                                                                    ((Ascii
                                                                    (false,
                                                                    false,
                                                                    true,
                                                                    true,
                                                                    false,
                                                                    false,
                                                                    true,
                                                                    false)),
                                                                    (String
                                                                    ((Ascii
                                                                    (true,
                                                                    false,
                                                                    false,
                                                                    true,
                                                                    false,
                                                                    true,
                                                                    true,
                                                                    false)),
                                                                    (String
                                                                    ((Ascii
                                                                    (true,
                                                                    true,
                                                                    false,
                                                                    false,
                                                                    true,
                                                                    true,
                                                                    true,
                                                                    false)),
                                                                    (String
                                                                    ((Ascii
                                                                    (false,
                                                                    false,
                                                                    true,
                                                                    false,
                                                                    true,
                                                                    true,
                                                                    true,
                                                                    false)),
                                                                    EmptyString))))))))))))))))))))))))))))))))))
                                                                    | Err e ->
                                                                    canon_res
                                                                    (fun _ ->
                                                                    EmptyString)
                                                                    (Err e)
                                                                    | Panic s0 ->
                                                                    canon_res
                                                                    (fun _ ->
                                                                    EmptyString)
                                                                    (Panic s0)
                                                                    | OutOfFuel ->
                                                                    canon_res
                                                                    (fun _ ->
                                                                    EmptyString)
                                                                    OutOfFuel)
                                                                    | None ->
                                                                    String
                                                                    ((Ascii
                                                                    (false,
                                                                    true,
                                                                    false,
                                                                    false,
                                                                    false,
                                                                    true,
                                                                    true,
                                                                    false)),
                                                                    (String
                                                                    ((Ascii
                                                                    (true,
                                                                    false,
                                                                    false,
                                                                    false,
                                                                    false,
                                                                    true,
                                                                    true,
                                                                    false)),
                                                                    (String
                                                                    ((Ascii
                                                                    (false,
                                                                    false,
                                                                    true,
                                                                    false,
                                                                    false,
                                                                    true,
                                                                    true,
                                                                    false)),
                                                                    (String
                                                                    ((Ascii
                                                                    (true,
                                                                    true,
                                                                    false,
                                                                    false,
                                                                    false,
                                                                    true,
                                                                    true,
                                                                    false)),
                                                                    (String
                                                                    ((Ascii
                                                                    (true,
                                                                    false,
                                                                    false,
                                                                    false,
                                                                    false,
                                                                    true,
                                                                    true,
                                                                    false)),
                                                                    (String
                                                                    ((Ascii
                                                                    (true,
                                                                    true,
                                                                    false,
                                                                    false,
                                                                    true,
                                                                    true,
                                                                    true,
                                                                    false)),
                                                                    (String
                                                                    ((Ascii
                                                                    (true,
                                                                    false,
                                                                    true,
                                                                    false,
                                                                    false,
                                                                    true,
                                                                    true,
                                                                    false)),
                                                                    EmptyString))))))))))))))
                                                                    | _ :: _ ->
                                                                    String
                                                                    ((Ascii
                                                                    (false,
                                                                    true,
                                                                    false,
                                                                    false,
                                                                    false,
                                                                    true,
                                                                    true,
                                                                    false)),
                                                                    (String
                                                                    ((Ascii
                                                                    (true,
                                                                    false,
                                                                    false,
                                                                    false,
                                                                    false,
                                                                    true,
                                                                    true,
                                                                    false)),
                                                                    (String
                                                                    ((Ascii
                                                                    (false,
                                                                    false,
                                                                    true,
                                                                    false,
                                                                    false,
                                                                    true,
                                                                    true,
                                                                    false)),
                                                                    (String
                                                                    ((Ascii
                                                                    (true,
                                                                    true,
                                                                    false,
                                                                    false,
                                                                    false,
                                                                    true,
                                                                    true,
                                                                    false)),
                                                                    (String
                                                                    ((Ascii
                                                                    (true,
                                                                    false,
                                                                    false,
                                                                    false,
                                                                    false,
                                                                    true,
                                                                    true,
                                                                    false)),
                                                                    (String
                                                                    ((Ascii
                                                                    (true,
                                                                    true,
                                                                    false,
                                                                    false,
                                                                    true,
                                                                    true,
                                                                    true,
                                                                    false)),
                                                                    (String
                                                                    ((Ascii
                                                                    (true,
                                                                    false,
                                                                    true,
                                                                    false,
                                                                    false,
                                                                    true,
                                                                    true,
                                                                    false)),
                                                                    EmptyString))))))))))))))
                                                                    else 
                                                                    String
                                                                    ((Ascii
                                                                    (false,
                                                                    true,
                                                                    false,
                                                                    false,
                                                                    false,
                                                                    true,
                                                                    true,
                                                                    false)),
                                                                    (String
                                                                    ((Ascii
                                                                    (true,
                                                                    false,
                                                                    false,
                                                                    false,
                                                                    false,
                                                                    true,
                                                                    true,
                                                                    false)),
                                                                    (String
                                                                    ((Ascii
                                                                    (false,
                                                                    false,
                                                                    true,
                                                                    false,
                                                                    false,
                                                                    true,
                                                                    true,
                                                                    false)),
                                                                    (String
                                                                    ((Ascii
                                                                    (true,
                                                                    true,
                                                                    false,
                                                                    false,
                                                                    false,
                                                                    true,
                                                                    true,
                                                                    false)),
                                                                    (String
                                                                    ((Ascii
                                                                    (true,
                                                                    false,
                                                                    false,
                                                                    false,
                                                                    false,
                                                                    true,
                                                                    true,
                                                                    false)),
                                                                    (String
                                                                    ((Ascii
                                                                    (true,
                                                                    true,
                                                                    false,
                                                                    false,
                                                                    true,
                                                                    true,
                                                                    true,
                                                                    false)),
                                                                    (String
                                                                    ((Ascii
                                                                    (true,
                                                                    false,
                                                                    true,
                                                                    false,
                                                                    false,
                                                                    true,
                                                                    true,
                                                                    false)),
                                                                    EmptyString)))))))))))))
                                                          else String ((Ascii
                                                                 (false,
                                                                 true, false,
                                                                 false,
                                                                 false, true,
                                                                 true,
                                                                 false)),
                                                                 (String
                                                                 ((Ascii
                                                                 (true,
                                                                 false,
                                                                 false,
                                                                 false,
                                                                 false, true,
                                                                 true,
                                                                 false)),
                                                                 (String
                                                                 ((Ascii
                                                                 (false,
                                                                 false, true,
                                                                 false,
                                                                 false, true,
                                                                 true,
                                                                 false)),
                                                                 (String
                                                                 ((Ascii
                                                                 (true, true,
                                                                 false,
                                                                 false,
                                                                 false, true,
                                                                 true,
                                                                 false)),
                                                                 (String
                                                                 ((Ascii
                                                                 (true,
                                                                 false,
                                                                 false,
                                                                 false,
                                                                 false, true,
                                                                 true,
                                                                 false)),
                                                                 (String
                                                                 ((Ascii
                                                                 (true, true,
                                                                 false,
                                                                 false, true,
                                                                 true, true,
                                                                 false)),
                                                                 (String
                                                                 ((Ascii
                                                                 (true,
                                                                 false, true,
                                                                 false,
                                                                 false, true,
                                                                 true,
                                                                 false)),
                                                                 EmptyString)))))))))))))
                                           else String ((Ascii (false, true,
                                                  false, false, false, true,
                                                  true, false)), (String
                                                  ((Ascii (true, false,
                                                  false, false, false, true,
                                                  true, false)), (String
                                                  ((Ascii (false, false,
                                                  true, false, false, true,
                                                  true, false)), (String
                                                  ((Ascii (true, true, false,
                                                  false, false, true, true,
                                                  false)), (String ((Ascii
                                                  (true, false, false, false,
                                                  false, true, true, false)),
                                                  (String ((Ascii (true,
                                                  true, false, false, true,
                                                  true, true, false)),
                                                  (String ((Ascii (true,
                                                  false, true, false, false,
                                                  true, true, false)),
                                                  EmptyString)))))))))))))
                                      else String ((Ascii (false, true,
                                             false, false, false, true, true,
                                             false)), (String ((Ascii (true,
                                             false, false, false, false,
                                             true, true, false)), (String
                                             ((Ascii (false, false, true,
                                             false, false, true, true,
                                             false)), (String ((Ascii (true,
                                             true, false, false, false, true,
                                             true, false)), (String ((Ascii
                                             (true, false, false, false,
                                             false, true, true, false)),
                                             (String ((Ascii (true, true,
                                             false, false, true, true, true,
                                             false)), (String ((Ascii (true,
                                             false, true, false, false, true,
                                             true, false)),
                                             EmptyString))))))))))))))))
                           | None ->
                             String ((Ascii (false, true, false, false,
                               false, true, true, false)), (String ((Ascii
                               (true, false, false, false, false, true, true,
                               false)), (String ((Ascii (false, false, true,
                               false, false, true, true, false)), (String
                               ((Ascii (true, true, false, false, false,
                               true, true, false)), (String ((Ascii (true,
                               false, false, false, false, true, true,
                               false)), (String ((Ascii (true, true, false,
                               false, true, true, true, false)), (String
                               ((Ascii (true, false, true, false, false,
                               true, true, false)), EmptyString))))))))))))))
                        | None ->
                          String ((Ascii (false, true, false, false, false,
                            true, true, false)), (String ((Ascii (true,
                            false, false, false, false, true, true, false)),
                            (String ((Ascii (false, false, true, false,
                            false, true, true, false)), (String ((Ascii
                            (true, true, false, false, false, true, true,
                            false)), (String ((Ascii (true, false, false,
                            false, false, true, true, false)), (String
                            ((Ascii (true, true, false, false, true, true,
                            true, false)), (String ((Ascii (true, false,
                            true, false, false, true, true, false)),
                            EmptyString))))))))))))))
                     | None ->
                       String ((Ascii (false, true, false, false, false,
                         true, true, false)), (String ((Ascii (true, false,
                         false, false, false, true, true, false)), (String
                         ((Ascii (false, false, true, false, false, true,
                         true, false)), (String ((Ascii (true, true, false,
                         false, false, true, true, false)), (String ((Ascii
                         (true, false, false, false, false, true, true,
                         false)), (String ((Ascii (true, true, false, false,
                         true, true, true, false)), (String ((Ascii (true,
                         false, true, false, false, true, true, false)),
                         EmptyString))))))))))))))
                  | None ->
                    String ((Ascii (false, true, false, false, false, true,
                      true, false)), (String ((Ascii (true, false, false,
                      false, false, true, true, false)), (String ((Ascii
                      (false, false, true, false, false, true, true, false)),
                      (String ((Ascii (true, true, false, false, false, true,
                      true, false)), (String ((Ascii (true, false, false,
                      false, false, true, true, false)), (String ((Ascii
                      (true, true, false, false, true, true, true, false)),
                      (String ((Ascii (true, false, true, false, false, true,
                      true, false)), EmptyString))))))))))))))
               | None ->
                 String ((Ascii (false, true, false, false, false, true,
                   true, false)), (String ((Ascii (true, false, false, false,
                   false, true, true, false)), (String ((Ascii (false, false,
                   true, false, false, true, true, false)), (String ((Ascii
                   (true, true, false, false, false, true, true, false)),
                   (String ((Ascii (true, false, false, false, false, true,
                   true, false)), (String ((Ascii (true, true, false, false,
                   true, true, true, false)), (String ((Ascii (true, false,
                   true, false, false, true, true, false)),
                   EmptyString))))))))))))))
            | None ->
              String ((Ascii (false, true, false, false, false, true, true,
                false)), (String ((Ascii (true, false, false, false, false,
                true, true, false)), (String ((Ascii (false, false, true,
                false, false, true, true, false)), (String ((Ascii (true,
                true, false, false, false, true, true, false)), (String
                ((Ascii (true, false, false, false, false, true, true,
                false)), (String ((Ascii (true, true, false, false, true,
                true, true, false)), (String ((Ascii (true, false, true,
                false, false, true, true, false)), EmptyString))))))))))))))
         | None ->
           String ((Ascii (false, true, false, false, false, true, true,
             false)), (String ((Ascii (true, false, false, false, false,
             true, true, false)), (String ((Ascii (false, false, true, false,
             false, true, true, false)), (String ((Ascii (true, true, false,
             false, false, true, true, false)), (String ((Ascii (true, false,
             false, false, false, true, true, false)), (String ((Ascii (true,
             true, false, false, true, true, true, false)), (String ((Ascii
             (true, false, true, false, false, true, true, false)),
             EmptyString))))))))))))))))

(** val is_pynode_line : string list -> bool **)

let is_pynode_line ts =
  match rev0 ts with
  | [] -> false
  | _ :: l ->
    (match l with
     | [] -> false
     | op :: _ ->
       eqb1 op (String ((Ascii (false, false, false, false, true, true, true,
         false)), (String ((Ascii (true, false, false, true, true, true,
         true, false)), (String ((Ascii (false, true, true, true, false,
         true, true, false)), (String ((Ascii (true, true, true, true, false,
         true, true, false)), (String ((Ascii (false, false, true, false,
         false, true, true, false)), (String ((Ascii (true, false, true,
         false, false, true, true, false)), EmptyString)))))))))))))

(** val run_line6 : string -> string **)

let run_line6 line =
  match words line with
  | [] ->
    String ((Ascii (false, true, false, false, false, true, true, false)),
      (String ((Ascii (true, false, false, false, false, true, true, false)),
      (String ((Ascii (false, false, true, false, false, true, true, false)),
      (String ((Ascii (false, false, true, true, false, true, true, false)),
      (String ((Ascii (true, false, false, true, false, true, true, false)),
      (String ((Ascii (false, true, true, true, false, true, true, false)),
      (String ((Ascii (true, false, true, false, false, true, true, false)),
      EmptyString)))))))))))))
  | id :: l ->
    (match l with
     | [] ->
       String ((Ascii (false, true, false, false, false, true, true, false)),
         (String ((Ascii (true, false, false, false, false, true, true,
         false)), (String ((Ascii (false, false, true, false, false, true,
         true, false)), (String ((Ascii (false, false, true, true, false,
         true, true, false)), (String ((Ascii (true, false, false, true,
         false, true, true, false)), (String ((Ascii (false, true, true,
         true, false, true, true, false)), (String ((Ascii (true, false,
         true, false, false, true, true, false)), EmptyString)))))))))))))
     | mode :: ts ->
       if (&&)
            (eqb1 mode (String ((Ascii (true, false, false, true, false,
              true, true, false)), (String ((Ascii (false, true, true, true,
              false, true, true, false)), (String ((Ascii (false, true, true,
              false, true, true, true, false)), EmptyString)))))))
            (is_pynode_line ts)
       then append id (append tab (run_pynode ts))
       else run_line5 line)

(** val run_value3 : string list -> string **)

let run_value3 = function
| [] ->
  String ((Ascii (false, true, false, false, false, true, true, false)),
    (String ((Ascii (true, false, false, false, false, true, true, false)),
    (String ((Ascii (false, false, true, false, false, true, true, false)),
    (String ((Ascii (true, true, false, false, false, true, true, false)),
    (String ((Ascii (true, false, false, false, false, true, true, false)),
    (String ((Ascii (true, true, false, false, true, true, true, false)),
    (String ((Ascii (true, false, true, false, false, true, true, false)),
    EmptyString)))))))))))))
| n0 :: ts' ->
  (match nat_of_string n0 with
   | Some n1 ->
     (match p_yamls n1 ts' with
      | Some p ->
        let (ys, l) = p in
        (match l with
         | [] ->
           String ((Ascii (false, true, false, false, false, true, true,
             false)), (String ((Ascii (true, false, false, false, false,
             true, true, false)), (String ((Ascii (false, false, true, false,
             false, true, true, false)), (String ((Ascii (true, true, false,
             false, false, true, true, false)), (String ((Ascii (true, false,
             false, false, false, true, true, false)), (String ((Ascii (true,
             true, false, false, true, true, true, false)), (String ((Ascii
             (true, false, true, false, false, true, true, false)),
             EmptyString)))))))))))))
         | n2 :: ts2 ->
           (match nat_of_string n2 with
            | Some n3 ->
              (match p_yamls n3 ts2 with
               | Some p0 ->
                 let (ys2, l0) = p0 in
                 (match l0 with
                  | [] ->
                    canon_res (canon false)
                      (bind (merge_layers ys) (fun root ->
                        bind (merge_layers ys2) (fun m ->
                          rendered run_fuel root (VMap m))))
                  | _ :: _ ->
                    String ((Ascii (false, true, false, false, false, true,
                      true, false)), (String ((Ascii (true, false, false,
                      false, false, true, true, false)), (String ((Ascii
                      (false, false, true, false, false, true, true, false)),
                      (String ((Ascii (true, true, false, false, false, true,
                      true, false)), (String ((Ascii (true, false, false,
                      false, false, true, true, false)), (String ((Ascii
                      (true, true, false, false, true, true, true, false)),
                      (String ((Ascii (true, false, true, false, false, true,
                      true, false)), EmptyString))))))))))))))
               | None ->
                 String ((Ascii (false, true, false, false, false, true,
                   true, false)), (String ((Ascii (true, false, false, false,
                   false, true, true, false)), (String ((Ascii (false, false,
                   true, false, false, true, true, false)), (String ((Ascii
                   (true, true, false, false, false, true, true, false)),
                   (String ((Ascii (true, false, false, false, false, true,
                   true, false)), (String ((Ascii (true, true, false, false,
                   true, true, true, false)), (String ((Ascii (true, false,
                   true, false, false, true, true, false)),
                   EmptyString))))))))))))))
            | None ->
              String ((Ascii (false, true, false, false, false, true, true,
                false)), (String ((Ascii (true, false, false, false, false,
                true, true, false)), (String ((Ascii (false, false, true,
                false, false, true, true, false)), (String ((Ascii (true,
                true, false, false, false, true, true, false)), (String
                ((Ascii (true, false, false, false, false, true, true,
                false)), (String ((Ascii (true, true, false, false, true,
                true, true, false)), (String ((Ascii (true, false, true,
                false, false, true, true, false)), EmptyString)))))))))))))))
      | None ->
        String ((Ascii (false, true, false, false, false, true, true,
          false)), (String ((Ascii (true, false, false, false, false, true,
          true, false)), (String ((Ascii (false, false, true, false, false,
          true, true, false)), (String ((Ascii (true, true, false, false,
          false, true, true, false)), (String ((Ascii (true, false, false,
          false, false, true, true, false)), (String ((Ascii (true, true,
          false, false, true, true, true, false)), (String ((Ascii (true,
          false, true, false, false, true, true, false)),
          EmptyString))))))))))))))
   | None ->
     String ((Ascii (false, true, false, false, false, true, true, false)),
       (String ((Ascii (true, false, false, false, false, true, true,
       false)), (String ((Ascii (false, false, true, false, false, true,
       true, false)), (String ((Ascii (true, true, false, false, false, true,
       true, false)), (String ((Ascii (true, false, false, false, false,
       true, true, false)), (String ((Ascii (true, true, false, false, true,
       true, true, false)), (String ((Ascii (true, false, true, false, false,
       true, true, false)), EmptyString))))))))))))))

(** val run_line7 : string -> string **)

let run_line7 line =
  match words line with
  | [] ->
    String ((Ascii (false, true, false, false, false, true, true, false)),
      (String ((Ascii (true, false, false, false, false, true, true, false)),
      (String ((Ascii (false, false, true, false, false, true, true, false)),
      (String ((Ascii (false, false, true, true, false, true, true, false)),
      (String ((Ascii (true, false, false, true, false, true, true, false)),
      (String ((Ascii (false, true, true, true, false, true, true, false)),
      (String ((Ascii (true, false, true, false, false, true, true, false)),
      EmptyString)))))))))))))
  | id :: l ->
    (match l with
     | [] ->
       String ((Ascii (false, true, false, false, false, true, true, false)),
         (String ((Ascii (true, false, false, false, false, true, true,
         false)), (String ((Ascii (false, false, true, false, false, true,
         true, false)), (String ((Ascii (false, false, true, true, false,
         true, true, false)), (String ((Ascii (true, false, false, true,
         false, true, true, false)), (String ((Ascii (false, true, true,
         true, false, true, true, false)), (String ((Ascii (true, false,
         true, false, false, true, true, false)), EmptyString)))))))))))))
     | mode :: ts ->
       if eqb1 mode (String ((Ascii (false, true, true, false, true, true,
            true, false)), (String ((Ascii (true, false, false, false, false,
            true, true, false)), (String ((Ascii (false, false, true, true,
            false, true, true, false)), (String ((Ascii (true, false, true,
            false, true, true, true, false)), (String ((Ascii (true, false,
            true, false, false, true, true, false)), (String ((Ascii (true,
            true, false, false, true, true, false, false)),
            EmptyString))))))))))))
       then append id (append tab (run_value3 ts))
       else run_line6 line)

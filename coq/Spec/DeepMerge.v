(* Specification for C02 / C09 / C10: the deep merge of a stack of reference-free layers,
   written directly on the YAML data as the property text reads ("collect-then-recurse").

   At one position of the parameter tree the layers' values are folded left to right:
     - null replaces anything and is replaced by anything;
     - a scalar replaces a scalar;  a list is appended to a list;
     - mappings are merged key by key: each key collects, in first-appearance order, the
       values the layers give it.  `~k` first empties what the key has collected, a write to
       a key already marked `=` is an error at once, `=k` marks the key from now on;
     - any other pairing of a mapping or a list with a non-null value is a type conflict.
   When the position is finished, each key's collected values are themselves deep-merged.
   Hence a null discards an earlier mapping together with its constants, an override
   discards the collected layers together with a conflict among them, and a conflict that
   is only followed by a null is still an error.

   Domain: layers without references whose mappings never spell one key twice (k and ~k in
   one YAML mapping) and whose keys carry at most one marker ("clean keys"). *)
From RV Require Import Model.Yaml.

Inductive serr := SConst (k : value) | SConflict | SPanic (s : site).
Inductive sres (A : Type) := SOk (a : A) | SErr (e : serr) | SFuel.
Arguments SOk {A} a.
Arguments SErr {A} e.
Arguments SFuel {A}.

Definition sbind {A B} (r : sres A) (f : A -> sres B) : sres B :=
  match r with SOk a => f a | SErr e => SErr e | SFuel => SFuel end.
Notation "x <~ r ;; k" := (sbind r (fun x => k)) (at level 61, r at next level, right associativity).
Notation "' p <~ r ;; k" := (sbind r (fun p => k)) (at level 61, p pattern, r at next level, right associativity).

(** what a key has collected so far *)
Record slot := { sl_key : value; sl_pending : list yaml; sl_const : bool }.

(** what a position has accumulated so far *)
Inductive acc :=
| ANull
| AScalar (v : value)
| ASeq (l : list yaml)
| AMaps (slots : list slot).

Definition key_of (k : yaml) : sres (value * option prefix) :=
  match k with
  | YNull => SOk (VNull, None)
  | YBool b => SOk (VBool b, None)
  | YNum n => SOk (VNum n, None)
  | YStr s => SOk (strip_prefix (VStr s))
  | YSeq _ | YMap _ => SErr SConflict          (* container keys are outside the domain *)
  | YTagged _ _ => SErr (SPanic PYamlTagged)
  end.

Fixpoint slot_write (k : value) (p : option prefix) (v : yaml) (slots : list slot) : sres (list slot) :=
  match slots with
  | [] => SOk [{| sl_key := k; sl_pending := [v]; sl_const := is_pconst p |}]
  | s :: rest =>
      if value_eqb (sl_key s) k then
        if sl_const s then SErr (SConst k)
        else SOk ({| sl_key := k;
                     sl_pending := (if is_pover p then [v] else sl_pending s ++ [v]);
                     sl_const := is_pconst p |} :: rest)
      else r <~ slot_write k p v rest ;; SOk (s :: r)
  end.

Fixpoint collect (entries : list (yaml * yaml)) (slots : list slot) : sres (list slot) :=
  match entries with
  | [] => SOk slots
  | (k, v) :: rest =>
      '(kv, p) <~ key_of k ;;
      slots' <~ slot_write kv p v slots ;;
      collect rest slots'
  end.

Definition scalar_of (y : yaml) : option value :=
  match y with
  | YNull => Some VNull
  | YBool b => Some (VBool b)
  | YNum n => Some (VNum n)
  | YStr s => Some (VLit s)
  | _ => None
  end.

(** one layer's value arrives at a position *)
Definition combine (a : acc) (y : yaml) : sres acc :=
  match y with
  | YNull => SOk ANull
  | YTagged _ _ => SErr (SPanic PYamlTagged)
  | YMap es =>
      match a with
      | ANull => s <~ collect es [] ;; SOk (AMaps s)
      | AMaps slots => s <~ collect es slots ;; SOk (AMaps s)
      | _ => SErr SConflict
      end
  | YSeq l =>
      match a with
      | ANull => SOk (ASeq l)
      | ASeq l0 => SOk (ASeq (l0 ++ l))
      | _ => SErr SConflict
      end
  | _ =>
      match a, scalar_of y with
      | (ANull | AScalar _), Some v => SOk (AScalar v)
      | _, _ => SErr SConflict
      end
  end.

Fixpoint combine_all (a : acc) (ys : list yaml) : sres acc :=
  match ys with
  | [] => SOk a
  | y :: ys' => a' <~ combine a y ;; combine_all a' ys'
  end.

(** [deep_merge f ys]: the rendered value of a position that received the values [ys]. *)
Fixpoint deep_merge (f : nat) (ys : list yaml) {struct f} : sres value :=
  match f with
  | 0 => SFuel
  | S f' =>
      a <~ combine_all ANull ys ;;
      match a with
      | ANull => SOk VNull
      | AScalar v => SOk v
      | ASeq l =>
          vs <~ (fix go (l : list yaml) : sres (list value) :=
                   match l with
                   | [] => SOk []
                   | x :: xs => v <~ deep_merge f' [x] ;; vs <~ go xs ;; SOk (v :: vs)
                   end) l ;;
          SOk (VSeq vs)
      | AMaps slots =>
          es <~ (fix go (slots : list slot) : sres (list entry) :=
                   match slots with
                   | [] => SOk []
                   | s :: rest =>
                       v <~ deep_merge f' (sl_pending s) ;;
                       es <~ go rest ;;
                       SOk ((sl_key s, v, false, false) :: es)
                   end) slots ;;
          SOk (VMap es)
      end
  end.

(* Specification for C05: the text form of a fully rendered value.
   Strings as-is, numbers in canonical decimal form, True/False/None, containers as compact
   JSON with byte-wise sorted keys in which integers stay integers.  Defined directly on
   rendered ("closed") values; [None] when the value is not closed data. *)
From RV Require Import Model.Json.

Fixpoint sorted_insert (k v : string) (l : list (string * string)) : list (string * string) :=
  match l with
  | [] => [(k, v)]
  | (k', v') :: l' =>
      if String.eqb k k' then (k, v) :: l'
      else if String.ltb k k' then (k, v) :: l
      else (k', v') :: sorted_insert k v l'
  end.

Definition spec_key (k : value) : option string :=
  match k with
  | VStr s | VLit s => Some s
  | VBool true => Some "true"
  | VBool false => Some "false"
  | VNum n => Some (num_display n)
  | VNull => Some "null"
  | _ => None
  end.

Definition spec_num (n : num) : string :=
  match n with
  | NInt z => Z_to_string z                       (* integers stay integers *)
  | NFloat f => match fk f with FFinite => f_json f | _ => json_string (f_yaml f) end
  end.

Fixpoint spec_json (v : value) {struct v} : option string :=
  match v with
  | VNull => Some "null"
  | VBool true => Some "true"
  | VBool false => Some "false"
  | VNum n => Some (spec_num n)
  | VLit s => Some (json_string s)
  | VStr _ | VList _ => None                       (* not rendered data *)
  | VSeq l =>
      option_map (fun body => ("[" ++ body ++ "]")%string)
        ((fix go (l : list value) : option string :=
            match l with
            | [] => Some ""
            | [x] => spec_json x
            | x :: xs => match spec_json x, go xs with
                         | Some a, Some b => Some (a ++ "," ++ b)%string
                         | _, _ => None
                         end
            end) l)
  | VMap es =>
      option_map (fun kvs => ("{" ++ join "," (map (fun '(k, t) => (json_string k ++ ":" ++ t)%string) kvs) ++ "}")%string)
        ((fix go (es : list entry) (acc : list (string * string)) : option (list (string * string)) :=
            match es with
            | [] => Some acc
            | (k, x, _, _) :: es' =>
                match spec_key k, spec_json x with
                | Some ks, Some t => go es' (sorted_insert ks t acc)
                | _, _ => None
                end
            end) es [])
  end.

Definition text_of (v : value) : option string :=
  match v with
  | VLit s => Some s
  | VNull => Some "None"
  | VBool true => Some "True"
  | VBool false => Some "False"
  | VNum n => Some (num_display n)
  | VMap _ | VSeq _ => spec_json v
  | VStr _ | VList _ => None
  end.

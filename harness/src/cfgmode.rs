// config mode (C20): a history of configuration calls on one instance; after every call
// the reported settings and the behaviour (is_class_ignored on probe names) are printed.
use crate::{canon_strs, hex, p_yaml, unhex, Toks};
use reclass_rs::verif_hooks as hooks;

fn p_opt_str(t: &mut Toks) -> Result<Option<String>, String> {
    let tok = t.next()?;
    if tok == "-" {
        Ok(None)
    } else {
        Ok(Some(unhex(tok.strip_prefix('S').ok_or("optstr")?)?))
    }
}

fn p_entries(t: &mut Toks) -> Result<Vec<(String, serde_yaml::Value)>, String> {
    let n = t.num()?;
    let mut out = vec![];
    for _ in 0..n {
        let k = t.string()?;
        out.push((k, p_yaml(t)?));
    }
    Ok(out)
}

fn tf(b: bool) -> char {
    if b {
        'T'
    } else {
        'F'
    }
}

fn canon_config(c: &hooks::Config, probes: &[String], scratch: &str) -> String {
    let rel = |s: &str| s.replace(scratch, "<SCRATCH>");
    let mut bits = String::new();
    for p in probes {
        bits.push(tf(hooks::is_class_ignored(c, p)));
    }
    format!(
        "S{} S{} S{} {}{}{} {} B{}",
        hex(&rel(&c.inventory_path)),
        hex(&rel(&c.nodes_path)),
        hex(&rel(&c.classes_path)),
        tf(c.ignore_class_notfound),
        tf(c.compose_node_name),
        tf(c.compatflags.contains(&hooks::CompatFlag::ComposeNodeNameLiteralDots)),
        canon_strs(c.get_ignore_class_notfound_regexp()),
        bits
    )
}

pub fn run(t: &mut Toks) -> Result<String, String> {
    let _bad = t.strings()?;
    let _matches = t.strings()?;
    let probes = t.strings()?;
    let dir = crate::fsmodes::scratch_dir();
    let scratch = dir.to_str().unwrap().to_string();
    let old_cwd = std::env::current_dir().map_err(|e| e.to_string())?;
    std::env::set_current_dir(&dir).map_err(|e| e.to_string())?;
    let res = (|| -> Result<String, String> {
        let mut cfg: Option<hooks::Config> = None;
        let mut out = String::from("ok");
        while !t.done() {
            let op = t.next()?.to_string();
            let ok: bool;
            match op.as_str() {
                "new" => {
                    let a = p_opt_str(t)?;
                    let b = p_opt_str(t)?;
                    let c = p_opt_str(t)?;
                    let d = match t.next()? {
                        "-" => None,
                        "T" => Some(true),
                        "F" => Some(false),
                        x => return Err(format!("optbool {x}")),
                    };
                    match hooks::Config::new(a.as_deref(), b.as_deref(), c.as_deref(), d) {
                        Ok(c) => {
                            cfg = Some(c);
                            ok = true;
                        }
                        Err(_) => ok = false,
                    }
                }
                "load" => {
                    let file = t.string()?;
                    let entries = p_entries(t)?;
                    let mut m = serde_yaml::Mapping::new();
                    for (k, v) in entries {
                        // U+F8FE + YAML text: a key that is not a string (1, true, ~, [a], ...)
                        let key = match k.strip_prefix('\u{F8FE}') {
                            Some(rest) => serde_yaml::from_str::<serde_yaml::Value>(rest).map_err(|e| e.to_string())?,
                            None => serde_yaml::Value::String(k),
                        };
                        m.insert(key, v);
                    }
                    if let Some(c) = cfg.as_mut() {
                        // write the file at <inventory_path>/<file> (relative to the scratch cwd)
                        let mut p = std::path::PathBuf::from(&c.inventory_path);
                        std::fs::create_dir_all(&p).map_err(|e| e.to_string())?;
                        p.push(&file);
                        std::fs::write(&p, serde_yaml::to_string(&serde_yaml::Value::Mapping(m)).map_err(|e| e.to_string())?)
                            .map_err(|e| e.to_string())?;
                        ok = c.load_from_file(&file, false).is_ok();
                    } else {
                        ok = false;
                    }
                }
                "dict" => {
                    let inv = t.string()?;
                    let entries = p_entries(t)?;
                    match crate::pymode::py_from_dict(&inv, &entries)? {
                        Ok(c) => {
                            cfg = Some(c);
                            ok = true;
                        }
                        Err(msg) => {
                            if msg.starts_with("NOT-ValueError") {
                                out.push_str(&format!(" | err NOTVALUEERROR {}", hex(&msg)));
                                continue;
                            }
                            ok = false;
                        }
                    }
                }
                "regexp" => {
                    let ps = t.strings()?;
                    ok = match cfg.as_mut() {
                        Some(c) => c.set_ignore_class_notfound_regexp(ps).is_ok(),
                        None => false,
                    };
                }
                "ignore" | "compose" => {
                    let b = t.next()? == "T";
                    ok = match cfg.as_mut() {
                        Some(c) => {
                            if op == "ignore" {
                                c.ignore_class_notfound = b;
                            } else {
                                c.compose_node_name = b;
                            }
                            true
                        }
                        None => true,
                    };
                }
                "setflag" | "unsetflag" | "clearflags" => {
                    ok = true;
                    if let Some(c) = cfg.as_mut() {
                        // through the public setters of `Reclass` (an instance over an empty scratch
                        // inventory that is handed this configuration)
                        let rdir = std::path::PathBuf::from(&scratch).join("flag-inv");
                        std::fs::create_dir_all(rdir.join("nodes")).map_err(|e| e.to_string())?;
                        std::fs::create_dir_all(rdir.join("classes")).map_err(|e| e.to_string())?;
                        let mut r = reclass_rs::Reclass::new(rdir.to_str().unwrap(), "nodes", "classes", false)
                            .map_err(|e| e.to_string())?;
                        r.config = c.clone();
                        match op.as_str() {
                            "setflag" => r.set_compat_flag(hooks::CompatFlag::ComposeNodeNameLiteralDots),
                            "unsetflag" => r.unset_compat_flag(&hooks::CompatFlag::ComposeNodeNameLiteralDots),
                            _ => r.clear_compat_flags(),
                        }
                        *c = r.config.clone();
                    }
                }
                _ => return Err(format!("bad op {op}")),
            }
            out.push_str(if ok { " | ok " } else { " | err " });
            match &cfg {
                Some(c) => out.push_str(&canon_config(c, &probes, &scratch)),
                None => out.push('-'),
            }
        }
        Ok(out)
    })();
    let _ = std::env::set_current_dir(old_cwd);
    let _ = std::fs::remove_dir_all(&dir);
    res
}

// Correspondence harness: runs cases (one per line, same prefix notation as the model
// driver) through the real reclass-rs code built from /repo's working tree with
// --cfg reclass_rs_verif, and prints one canonical observation per line.
use std::cell::RefCell;
use std::io::{BufRead, Write};
use std::panic::{catch_unwind, AssertUnwindSafe};

use reclass_rs::types::{Mapping, Value};
use reclass_rs::verif_hooks as hooks;

mod cfgmode;
mod fsmodes;
mod pymode;

thread_local! {
    static LAST_PANIC: RefCell<String> = const { RefCell::new(String::new()) };
}

pub fn hex(s: &str) -> String {
    let mut o = String::with_capacity(s.len() * 2);
    for b in s.as_bytes() {
        o.push_str(&format!("{b:02x}"));
    }
    o
}

pub fn unhex(h: &str) -> Result<String, String> {
    if h.len() % 2 != 0 {
        return Err("odd hex".into());
    }
    let mut bytes = Vec::with_capacity(h.len() / 2);
    for i in (0..h.len()).step_by(2) {
        bytes.push(u8::from_str_radix(&h[i..i + 2], 16).map_err(|e| e.to_string())?);
    }
    String::from_utf8(bytes).map_err(|e| e.to_string())
}

pub struct Toks<'a> {
    t: Vec<&'a str>,
    i: usize,
}

impl<'a> Toks<'a> {
    pub fn new(s: &'a str) -> Self {
        Toks {
            t: s.split(' ').filter(|w| !w.is_empty()).collect(),
            i: 0,
        }
    }
    pub fn next(&mut self) -> Result<&'a str, String> {
        let r = self.t.get(self.i).copied().ok_or("eof")?;
        self.i += 1;
        Ok(r)
    }
    pub fn clone_pos(&self) -> usize {
        self.i
    }
    pub fn set_pos(&mut self, i: usize) {
        self.i = i;
    }
    pub fn done(&self) -> bool {
        self.i >= self.t.len()
    }
    pub fn num(&mut self) -> Result<usize, String> {
        self.next()?.parse::<usize>().map_err(|e| e.to_string())
    }
    pub fn string(&mut self) -> Result<String, String> {
        let t = self.next()?;
        if !t.starts_with('S') {
            return Err(format!("expected S token, got {t}"));
        }
        unhex(&t[1..])
    }
    pub fn strings(&mut self) -> Result<Vec<String>, String> {
        let n = self.num()?;
        let mut r = vec![];
        for _ in 0..n {
            r.push(self.string()?);
        }
        Ok(r)
    }
}

pub fn p_yaml(t: &mut Toks) -> Result<serde_yaml::Value, String> {
    use serde_yaml::Value as Y;
    let tok = t.next()?;
    let (c, body) = tok.split_at(1);
    Ok(match c {
        "N" => Y::Null,
        "T" => Y::Bool(true),
        "F" => Y::Bool(false),
        "I" => {
            if let Ok(i) = body.parse::<i64>() {
                Y::Number(i.into())
            } else {
                Y::Number(body.parse::<u64>().map_err(|e| e.to_string())?.into())
            }
        }
        "D" => {
            let parts: Vec<&str> = body.split(':').collect();
            let ytext = unhex(parts.get(1).ok_or("float")?)?;
            let v: Y = serde_yaml::from_str(&ytext).map_err(|e| e.to_string())?;
            match v {
                Y::Number(n) if n.is_f64() => Y::Number(n),
                _ => return Err(format!("not a float: {ytext}")),
            }
        }
        "S" => Y::String(unhex(body)?),
        "L" => {
            let n: usize = body.parse().map_err(|_| "len")?;
            let mut s = Vec::with_capacity(n);
            for _ in 0..n {
                s.push(p_yaml(t)?);
            }
            Y::Sequence(s)
        }
        "M" => {
            let n: usize = body.parse().map_err(|_| "len")?;
            let mut m = serde_yaml::Mapping::new();
            for _ in 0..n {
                let k = p_yaml(t)?;
                let v = p_yaml(t)?;
                if m.insert(k, v).is_some() {
                    return Err("duplicate yaml key in case".into());
                }
            }
            Y::Mapping(m)
        }
        "G" => {
            let tag = unhex(body)?;
            let v = p_yaml(t)?;
            Y::Tagged(Box::new(serde_yaml::value::TaggedValue {
                tag: serde_yaml::value::Tag::new(tag),
                value: v,
            }))
        }
        _ => return Err(format!("bad token {tok}")),
    })
}

pub fn canon(v: &Value, flags: bool, out: &mut String) {
    match v {
        Value::Null => out.push('N'),
        Value::Bool(true) => out.push('T'),
        Value::Bool(false) => out.push('F'),
        Value::Number(n) => {
            if n.is_i64() || n.is_u64() {
                out.push('I');
                out.push_str(&n.to_string());
            } else {
                out.push('D');
                out.push_str(&hex(&n.to_string()));
            }
        }
        Value::String(s) => {
            out.push('S');
            out.push_str(&hex(s));
        }
        Value::Literal(s) => {
            out.push('Q');
            out.push_str(&hex(s));
        }
        Value::Sequence(l) => {
            out.push_str(&format!("L{}", l.len()));
            for x in l {
                out.push(' ');
                canon(x, flags, out);
            }
        }
        Value::ValueList(l) => {
            out.push_str(&format!("V{}", l.len()));
            for x in l {
                out.push(' ');
                canon(x, flags, out);
            }
        }
        Value::Mapping(m) => canon_map(m, flags, out),
    }
}

/// A value in key position: mappings compare without regard to the order of their entries, so the
/// entries of a mapping inside a key are printed in sorted order of their printed form.
pub fn canon_key(v: &Value, flags: bool, out: &mut String) {
    match v {
        Value::Sequence(l) => {
            out.push_str(&format!("L{}", l.len()));
            for x in l {
                out.push(' ');
                canon_key(x, flags, out);
            }
        }
        Value::ValueList(l) => {
            out.push_str(&format!("V{}", l.len()));
            for x in l {
                out.push(' ');
                canon_key(x, flags, out);
            }
        }
        Value::Mapping(m) => {
            out.push_str(&format!("M{}", m.len()));
            let mut ents: Vec<String> = vec![];
            for (k, x) in m {
                let mut e = String::from(" ");
                canon_key(k, flags, &mut e);
                e.push(' ');
                canon_key(x, flags, &mut e);
                if flags {
                    let (c, o) = m.verif_key_flags(k);
                    e.push(' ');
                    e.push(if c { 'c' } else { '-' });
                    e.push(if o { 'o' } else { '-' });
                }
                ents.push(e);
            }
            ents.sort_by(|a, b| a.as_bytes().cmp(b.as_bytes()));
            for e in ents {
                out.push_str(&e);
            }
        }
        _ => canon(v, flags, out),
    }
}

pub fn canon_map(m: &Mapping, flags: bool, out: &mut String) {
    out.push_str(&format!("M{}", m.len()));
    for (k, x) in m {
        out.push(' ');
        canon_key(k, flags, out);
        out.push(' ');
        canon(x, flags, out);
        if flags {
            let (c, o) = m.verif_key_flags(k);
            out.push(' ');
            out.push(if c { 'c' } else { '-' });
            out.push(if o { 'o' } else { '-' });
        }
    }
}

pub fn canon_strs(l: &[String]) -> String {
    let mut o = format!("{}", l.len());
    for s in l {
        o.push_str(" S");
        o.push_str(&hex(s));
    }
    o
}

fn canon_token(t: &hooks::Token, out: &mut String) {
    match t {
        hooks::Token::Literal(s) => {
            out.push('l');
            out.push_str(&hex(s));
        }
        hooks::Token::Ref(ts) => {
            out.push_str(&format!("r{}", ts.len()));
            for x in ts {
                out.push(' ');
                canon_token(x, out);
            }
        }
        hooks::Token::Combined(ts) => {
            out.push_str(&format!("c{}", ts.len()));
            for x in ts {
                out.push(' ');
                canon_token(x, out);
            }
        }
    }
}

fn yaml_to_mapping(y: serde_yaml::Value) -> Result<Mapping, String> {
    match y {
        serde_yaml::Value::Mapping(m) => Ok(Mapping::from(m)),
        _ => Err("yamlshape parameters".into()),
    }
}

fn merge_layers(t: &mut Toks) -> Result<Result<Mapping, String>, String> {
    let r = merge_layers_group(t)?;
    if !t.done() {
        return Err("trailing".into());
    }
    Ok(r)
}

fn merge_layers_group(t: &mut Toks) -> Result<Result<Mapping, String>, String> {
    let n = t.num()?;
    let mut ys = vec![];
    for _ in 0..n {
        ys.push(p_yaml(t)?);
    }
    let mut m = Mapping::new();
    for y in ys {
        let l = match yaml_to_mapping(y) {
            Ok(l) => l,
            Err(e) => return Ok(Err(e)),
        };
        if let Err(e) = m.merge(&l) {
            return Ok(Err(format!("{e}")));
        }
    }
    Ok(Ok(m))
}

pub fn err_line(e: &str) -> String {
    format!("err {}", hex(e))
}

fn run_case(mode: &str, t: &mut Toks) -> Result<String, String> {
    match mode {
        "merge" => Ok(match merge_layers(t)? {
            Ok(m) => {
                let mut o = String::from("ok ");
                canon_map(&m, true, &mut o);
                o
            }
            Err(e) => err_line(&e),
        }),
        "value" => Ok(match merge_layers(t)? {
            Ok(m) => {
                let mut v = Value::Mapping(m);
                match v.render_with_self() {
                    Ok(()) => {
                        let mut o = String::from("ok ");
                        canon(&v, false, &mut o);
                        o
                    }
                    Err(e) => err_line(&format!("{e}")),
                }
            }
            Err(e) => err_line(&e),
        }),
        "value2" => Ok(match merge_layers(t)? {
            Ok(m) => {
                let mut v = Value::Mapping(m);
                match v.render_with_self() {
                    Ok(()) => {
                        let mut o = String::from("ok ");
                        canon(&v, false, &mut o);
                        o.push_str(" || ");
                        let mut v2 = v.clone();
                        match v2.render_with_self() {
                            Ok(()) => canon(&v2, false, &mut o),
                            Err(e) => o.push_str(&err_line(&format!("{e}"))),
                        }
                        o
                    }
                    Err(e) => err_line(&format!("{e}")),
                }
            }
            Err(e) => err_line(&e),
        }),
        "value3" => {
            // Value::rendered(&root): the second group of layers rendered against the first
            let root = merge_layers_group(t)?;
            let val = merge_layers(t)?;
            Ok(match (root, val) {
                (Err(e), _) => err_line(&e),
                (Ok(_), Err(e)) => err_line(&e),
                (Ok(root), Ok(m)) => match Value::Mapping(m).rendered(&root) {
                    Ok(v) => {
                        let mut o = String::from("ok ");
                        canon(&v, false, &mut o);
                        o
                    }
                    Err(e) => err_line(&format!("{e}")),
                },
            })
        }
        "token" => {
            let s = t.string()?;
            Ok(match hooks::token_parse(&s) {
                Ok(None) => "none".into(),
                Ok(Some(tok)) => {
                    let mut o = String::from("tok ");
                    canon_token(&tok, &mut o);
                    o
                }
                Err(_) => "parseerr".into(),
            })
        }
        "list" => {
            use hooks::List;
            let kind = t.next()?;
            let n = t.num()?;
            let mut lists = vec![];
            for _ in 0..n {
                lists.push(t.strings()?);
            }
            // both entry points of the List trait are driven: `merge` (consuming) and `merge_from` (by reference);
            // they must agree, a disagreement is appended to the observation
            if kind == "u" {
                let mut acc = hooks::UniqueList::new();
                let mut acc2 = hooks::UniqueList::new();
                for l in lists {
                    acc2.merge_from(&hooks::UniqueList::from(l.clone()));
                    acc.merge(hooks::UniqueList::from(l));
                }
                let extra = if acc.verif_items() == acc2.verif_items() {
                    String::new()
                } else {
                    format!(" MERGE_FROM {}", canon_strs(acc2.verif_items()))
                };
                Ok(format!("ok {}{}", canon_strs(acc.verif_items()), extra))
            } else {
                let mut acc = hooks::RemovableList::new();
                let mut acc2 = hooks::RemovableList::new();
                for l in lists {
                    acc2.merge_from(&hooks::RemovableList::from(l.clone()));
                    acc.merge(hooks::RemovableList::from(l));
                }
                let (items, negs) = acc.verif_parts();
                let (items2, negs2) = acc2.verif_parts();
                let extra = if items == items2 && negs == negs2 {
                    String::new()
                } else {
                    format!(" MERGE_FROM {} {}", canon_strs(items2), canon_strs(negs2))
                };
                Ok(format!("ok {} {}{}", canon_strs(items), canon_strs(negs), extra))
            }
        }
        "float" => {
            let text = t.string()?;
            let v: serde_yaml::Value = serde_yaml::from_str(&text).map_err(|e| e.to_string())?;
            match v {
                serde_yaml::Value::Number(n) if n.is_f64() => {
                    let f = n.as_f64().unwrap();
                    let kind = if f.is_nan() {
                        "n"
                    } else if f == f64::INFINITY {
                        "p"
                    } else if f == f64::NEG_INFINITY {
                        "m"
                    } else {
                        "f"
                    };
                    let seq = Value::Sequence(vec![Value::Number(n.clone())]);
                    let mut o = String::from("ok ");
                    canon(&seq.rendered(&Mapping::new()).map_err(|e| e.to_string())?, false, &mut o);
                    // JSON text of the number: render "${x}" embedded in a string against {x: [n]}
                    let mut root = serde_yaml::Mapping::new();
                    root.insert("x".into(), serde_yaml::Value::Sequence(vec![serde_yaml::Value::Number(n.clone())]));
                    let root = Mapping::from(root);
                    let j = Value::String("-${x}".into()).rendered(&root).map_err(|e| e.to_string())?;
                    let mut jo = String::new();
                    canon(&j, false, &mut jo);
                    Ok(format!("{o} {kind} {} {jo}", hex(&n.to_string())))
                }
                _ => Ok("notfloat".into()),
            }
        }
        "config" => cfgmode::run(t),
        "names" | "abs" | "node" | "inv" | "discover" => fsmodes::run(mode, t),
        "py" => pymode::run(t),
        _ => Err(format!("badmode {mode}")),
    }
}

fn main() {
    std::panic::set_hook(Box::new(|info| {
        let msg = if let Some(s) = info.payload().downcast_ref::<&str>() {
            (*s).to_string()
        } else if let Some(s) = info.payload().downcast_ref::<String>() {
            s.clone()
        } else {
            "?".to_string()
        };
        LAST_PANIC.with(|p| *p.borrow_mut() = msg);
    }));
    let stdin = std::io::stdin();
    let stdout = std::io::stdout();
    let mut out = std::io::BufWriter::new(stdout.lock());
    for line in stdin.lock().lines() {
        let line = line.expect("read");
        if line.trim().is_empty() {
            continue;
        }
        let mut t = Toks::new(&line);
        let id = t.next().unwrap_or("?").to_string();
        let mode = t.next().unwrap_or("?").to_string();
        let r = catch_unwind(AssertUnwindSafe(|| run_case(&mode, &mut t)));
        let obs = match r {
            Ok(Ok(o)) => o,
            Ok(Err(e)) => format!("badcase {}", hex(&e)),
            Err(_) => {
                let msg = LAST_PANIC.with(|p| p.borrow().clone());
                format!("panic {}", hex(&msg))
            }
        };
        writeln!(out, "{id}\t{obs}").expect("write");
        out.flush().expect("flush");
    }
}

// Embedded CPython: observes what a Python caller of the extension module sees.
use pyo3::prelude::*;
use pyo3::types::{PyDict, PyList};
use reclass_rs::verif_hooks as hooks;
use reclass_rs::Reclass;
use std::ffi::CString;
use std::sync::Once;

use crate::Toks;

static INIT: Once = Once::new();

pub fn init() {
    INIT.call_once(|| {
        pyo3::prepare_freethreaded_python();
    });
}

const PRELUDE: &str = r#"
def canon(o):
    if o is None: return 'N'
    if o is True: return 'T'
    if o is False: return 'F'
    if isinstance(o, int): return 'I%d' % o
    if isinstance(o, float): return 'D' + repr(o).encode().hex()
    if isinstance(o, str): return 'Q' + o.encode('utf-8', 'surrogatepass').hex()
    if isinstance(o, list): return ' '.join(['L%d' % len(o)] + [canon(x) for x in o])
    if isinstance(o, dict): return ' '.join(['M%d' % len(o)] + [canon(k) + ' ' + canon(v) for k, v in o.items()])
    return 'X' + type(o).__name__

def strs(l):
    return ' '.join(['%d' % len(l)] + ['S' + x.encode().hex() for x in l])

def exc(e):
    return 'raise ' + type(e).__name__ + ' ' + str(e).encode().hex()
"#;

fn run_py(py: Python<'_>, locals: &Bound<'_, PyDict>, code: &str) -> Result<String, String> {
    let full = format!("{PRELUDE}\n{code}");
    py.run(&CString::new(full).unwrap(), Some(locals), None)
        .map_err(|e| format!("python harness error: {e}"))?;
    let out = locals
        .get_item("out")
        .map_err(|e| e.to_string())?
        .ok_or("no out")?;
    out.extract::<String>().map_err(|e| e.to_string())
}

/// nodeinfo(name) as seen from Python: parameters (attribute view), as_dict() view, classes,
/// applications, metadata; exceptions as `raise <Type> <msg hex>`.
pub fn py_node(r: &Reclass, name: &str, nodes_root: &str) -> Result<String, String> {
    init();
    Python::with_gil(|py| {
        let locals = PyDict::new(py);
        let robj = r.clone().into_pyobject(py).map_err(|e| e.to_string())?;
        locals.set_item("r", robj).map_err(|e| e.to_string())?;
        locals.set_item("name", name).map_err(|e| e.to_string())?;
        locals.set_item("nodes_root", nodes_root).map_err(|e| e.to_string())?;
        run_py(
            py,
            &locals,
            r#"
try:
    ni = r.nodeinfo(name)
    try:
        p = ni.parameters
        d = ni.as_dict()
        meta = ni.__reclass__
        out = ('ok P ' + canon(p) + ' || D ' + canon(d['parameters']) + ' || C ' + strs(ni.classes) + ' || DC ' + strs(d['classes'])
               + ' || A ' + strs(ni.applications) + ' || DA ' + strs(d['applications'])
               + ' || META ' + strs([meta.node, meta.name, meta.uri.replace(nodes_root, '<NODES>'), meta.environment])
               + ' || DMETA ' + strs([d['__reclass__']['node'], d['__reclass__']['name'], d['__reclass__']['uri'].replace(nodes_root, '<NODES>'), d['__reclass__']['environment'], d['environment']])
               + ' || KEYS ' + strs(sorted(d.keys())))
        # what Python received is Python's to edit: later views still show the rendered data
        first = canon(p)
        if isinstance(p, dict):
            p.clear(); p['__edited__'] = 1
        if isinstance(d.get('parameters'), dict):
            d['parameters'].clear(); d['parameters']['__edited__'] = 2
        again = canon(ni.parameters) == first and canon(ni.as_dict()['parameters']) == first
        out += ' || AGAIN ' + ('T' if again else 'F')
    except BaseException as e:
        out = 'conv ' + exc(e)
except BaseException as e:
    out = exc(e)
"#,
        )
    })
}

pub fn py_inventory(r: &Reclass) -> Result<String, String> {
    init();
    Python::with_gil(|py| {
        let locals = PyDict::new(py);
        let robj = r.clone().into_pyobject(py).map_err(|e| e.to_string())?;
        locals.set_item("r", robj).map_err(|e| e.to_string())?;
        run_py(
            py,
            &locals,
            r#"
try:
    inv = r.inventory()
    d = inv.as_dict()
    def ix(m):
        return ' '.join('S' + k.encode().hex() + ' ' + strs(m[k]) for k in sorted(m))
    out = ('ok A ' + ix(inv.applications) + ' || C ' + ix(inv.classes) + ' || N ' + strs(sorted(inv.nodes.keys()))
           + ' || DA ' + ix(d['applications']) + ' || DC ' + ix(d['classes']) + ' || DN ' + strs(sorted(d['nodes'].keys()))
           + ' || SAME ' + ('T' if all(canon(d['nodes'][n]['parameters']) == canon(inv.nodes[n].parameters) for n in d['nodes']) else 'F')
           + ' || KEYS ' + strs(sorted(d.keys())))
    first = {n: canon(inv.nodes[n].parameters) for n in d['nodes']}
    for n in d['nodes']:
        d['nodes'][n]['parameters'].clear()
        inv.nodes[n].parameters.clear()
    d2 = inv.as_dict()
    again = all(canon(d2['nodes'][n]['parameters']) == first[n] and canon(inv.nodes[n].parameters) == first[n] for n in first)
    out += ' || AGAIN ' + ('T' if again else 'F')
except BaseException as e:
    out = exc(e)
"#,
        )
    })
}

fn yaml_to_py<'py>(py: Python<'py>, y: &serde_yaml::Value) -> Result<Bound<'py, PyAny>, String> {
    use serde_yaml::Value as Y;
    Ok(match y {
        Y::Null => py.None().into_bound(py),
        Y::Bool(b) => pyo3::types::PyBool::new(py, *b).to_owned().into_any(),
        Y::Number(n) => {
            if let Some(i) = n.as_i64() {
                i.into_pyobject(py).map_err(|e| e.to_string())?.into_any()
            } else if let Some(u) = n.as_u64() {
                u.into_pyobject(py).map_err(|e| e.to_string())?.into_any()
            } else {
                n.as_f64().unwrap().into_pyobject(py).map_err(|e| e.to_string())?.into_any()
            }
        }
        Y::String(s) => s.into_pyobject(py).map_err(|e| e.to_string())?.into_any(),
        Y::Sequence(l) => {
            let pl = PyList::empty(py);
            for x in l {
                pl.append(yaml_to_py(py, x)?).map_err(|e| e.to_string())?;
            }
            pl.into_any()
        }
        Y::Mapping(m) => {
            let d = PyDict::new(py);
            for (k, v) in m {
                d.set_item(yaml_to_py(py, k)?, yaml_to_py(py, v)?).map_err(|e| e.to_string())?;
            }
            d.into_any()
        }
        Y::Tagged(_) => return Err("tagged in dict".into()),
    })
}

/// Config.from_dict(inventory_path, dict) through Python.
pub fn py_from_dict(inv: &str, entries: &[(String, serde_yaml::Value)]) -> Result<Result<hooks::Config, String>, String> {
    init();
    Python::with_gil(|py| {
        let d = PyDict::new(py);
        for (k, v) in entries {
            d.set_item(k, yaml_to_py(py, v)?).map_err(|e| e.to_string())?;
        }
        let ty = py.get_type::<hooks::Config>();
        match ty.call_method1("from_dict", (inv, d)) {
            Ok(c) => {
                let c: hooks::Config = c.extract().map_err(|e| e.to_string())?;
                Ok(Ok(c))
            }
            Err(e) => {
                let is_value_error = e.is_instance_of::<pyo3::exceptions::PyValueError>(py);
                Ok(Err(format!("{}{e}", if is_value_error { "" } else { "NOT-ValueError: " })))
            }
        }
    })
}

pub fn run(_t: &mut Toks) -> Result<String, String> {
    Err("use inv mode ops pynode / pyinv".into())
}

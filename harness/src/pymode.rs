// Embedded-CPython mode (filled in later).
use crate::Toks;
pub fn run(_t: &mut Toks) -> Result<String, String> {
    Err("py mode not implemented".into())
}

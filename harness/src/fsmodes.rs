// Modes that need a directory tree on disk: inv (render node / inventory / discovery),
// abs (abs_class_name through the hook).
use crate::{canon_map, canon_strs, err_line, hex, p_yaml, Toks};
use reclass_rs::verif_hooks as hooks;
use reclass_rs::Reclass;
use std::path::{Path, PathBuf};
use std::sync::atomic::{AtomicUsize, Ordering};

static COUNTER: AtomicUsize = AtomicUsize::new(0);

pub fn scratch_dir() -> PathBuf {
    let base = std::env::var("RV_SCRATCH").unwrap_or_else(|_| "/verif/.build/scratch".to_string());
    let n = COUNTER.fetch_add(1, Ordering::SeqCst);
    let d = PathBuf::from(base).join(format!("p{}-{}", std::process::id(), n));
    let _ = std::fs::remove_dir_all(&d);
    std::fs::create_dir_all(&d).expect("create scratch");
    d
}

fn p_bool(t: &mut Toks) -> Result<bool, String> {
    match t.next()? {
        "T" => Ok(true),
        "F" => Ok(false),
        x => Err(format!("bool {x}")),
    }
}

pub enum FileDoc {
    Dir,
    Doc(serde_yaml::Value),
    Raw(String),
    Bytes(Vec<u8>),
    Symlink(String),
}

fn p_files(t: &mut Toks) -> Result<Vec<(Vec<String>, FileDoc)>, String> {
    let n = t.num()?;
    let mut out = vec![];
    for _ in 0..n {
        let path = t.strings()?;
        // peek
        let save = t.clone_pos();
        let tok = t.next()?;
        if tok == "V" {
            // entry seen through a symlinked directory: exists on disk already, model only
            let _ = p_yaml(t)?;
        } else if tok == "X" {
            out.push((path, FileDoc::Dir));
        } else if let Some(h) = tok.strip_prefix("B") {
            let mut bytes = vec![];
            for i in (0..h.len()).step_by(2) {
                bytes.push(u8::from_str_radix(&h[i..i + 2], 16).map_err(|e| e.to_string())?);
            }
            out.push((path, FileDoc::Bytes(bytes)));
        } else if let Some(h) = tok.strip_prefix("R") {
            out.push((path, FileDoc::Raw(crate::unhex(h)?)));
        } else if let Some(h) = tok.strip_prefix("Y") {
            out.push((path, FileDoc::Symlink(crate::unhex(h)?)));
        } else if let Some(h) = tok.strip_prefix("K") {
            // symlink to a YAML file; the content that follows is for the model only
            out.push((path, FileDoc::Symlink(crate::unhex(h)?)));
            let _ = p_yaml(t)?;
        } else {
            t.set_pos(save);
            out.push((path, FileDoc::Doc(p_yaml(t)?)));
        }
    }
    Ok(out)
}

/// YAML double-quoted scalar: printable ASCII as is, everything else as \\uXXXX / \\UXXXXXXXX.
fn emit_dq(s: &str, out: &mut String) {
    out.push('"');
    for c in s.chars() {
        match c {
            '"' => out.push_str("\\\""),
            '\\' => out.push_str("\\\\"),
            ' '..='~' => out.push(c),
            _ if (c as u32) <= 0xffff => out.push_str(&format!("\\u{:04x}", c as u32)),
            _ => out.push_str(&format!("\\U{:08x}", c as u32)),
        }
    }
    out.push('"');
}

/// Flow-style YAML (JSON-like, explicit `? key : value` entries so that any node can be a key).
fn emit_flow(y: &serde_yaml::Value, out: &mut String) {
    use serde_yaml::Value as Y;
    match y {
        Y::Null => out.push_str("null"),
        Y::Bool(b) => out.push_str(if *b { "true" } else { "false" }),
        Y::Number(n) => out.push_str(&n.to_string()),
        Y::String(s) => emit_dq(s, out),
        Y::Sequence(l) => {
            out.push('[');
            for (i, x) in l.iter().enumerate() {
                if i > 0 {
                    out.push_str(", ");
                }
                emit_flow(x, out);
            }
            out.push(']');
        }
        Y::Mapping(m) => {
            out.push('{');
            for (i, (k, v)) in m.iter().enumerate() {
                if i > 0 {
                    out.push_str(", ");
                }
                out.push_str("? ");
                emit_flow(k, out);
                out.push_str(" : ");
                emit_flow(v, out);
            }
            out.push('}');
        }
        Y::Tagged(t) => {
            out.push_str(&t.tag.to_string());
            out.push(' ');
            emit_flow(&t.value, out);
        }
    }
}

/// A path segment as the OS sees it: U+F8FF followed by two hex digits stands for that raw byte
/// (file names that are not valid UTF-8).
fn os_seg(s: &str) -> std::ffi::OsString {
    use std::os::unix::ffi::OsStringExt;
    let mut out: Vec<u8> = vec![];
    let cs: Vec<char> = s.chars().collect();
    let mut i = 0;
    while i < cs.len() {
        if cs[i] == '\u{F8FF}' && i + 2 < cs.len() {
            let h: String = cs[i + 1..i + 3].iter().collect();
            if let Ok(b) = u8::from_str_radix(&h, 16) {
                out.push(b);
                i += 3;
                continue;
            }
        }
        let mut buf = [0u8; 4];
        out.extend_from_slice(cs[i].encode_utf8(&mut buf).as_bytes());
        i += 1;
    }
    std::ffi::OsString::from_vec(out)
}

pub fn write_tree(root: &Path, files: &[(Vec<String>, FileDoc)]) -> Result<(), String> {
    std::fs::create_dir_all(root).map_err(|e| e.to_string())?;
    for (path, doc) in files {
        let mut p = root.to_path_buf();
        for s in path {
            p.push(os_seg(s));
        }
        if let Some(parent) = p.parent() {
            std::fs::create_dir_all(parent).map_err(|e| e.to_string())?;
        }
        match doc {
            FileDoc::Dir => std::fs::create_dir_all(&p).map_err(|e| e.to_string())?,
            FileDoc::Raw(s) => std::fs::write(&p, s).map_err(|e| e.to_string())?,
            FileDoc::Bytes(b) => std::fs::write(&p, b).map_err(|e| e.to_string())?,
            FileDoc::Symlink(target) => {
                std::os::unix::fs::symlink(target, &p).map_err(|e| e.to_string())?
            }
            FileDoc::Doc(y) => {
                // serde_yaml's own emitter first; for the few shapes it cannot read back (container
                // keys below nested sequences) a plain flow-style emitter.  Either way the text
                // written must parse back to the same AST.
                let roundtrips = |text: &str| -> bool {
                    matches!(serde_yaml::from_str::<serde_yaml::Value>(text), Ok(back) if &back == y)
                };
                let mut text = serde_yaml::to_string(y).unwrap_or_default();
                if text.is_empty() || !roundtrips(&text) {
                    let mut flow = String::new();
                    emit_flow(y, &mut flow);
                    flow.push('\n');
                    if !roundtrips(&flow) {
                        return Err(format!("yaml roundtrip differs for {text:?} and for {flow:?}"));
                    }
                    text = flow;
                }
                std::fs::write(&p, text).map_err(|e| e.to_string())?;
            }
        }
    }
    Ok(())
}

fn canon_nodeinfo_parts(
    node: &str,
    name: &str,
    uri: &str,
    env: &str,
    apps: &[String],
    classes: &[String],
    params: &reclass_rs::types::Mapping,
    nodes_root: &str,
) -> String {
    let uri = uri.replace(nodes_root, "<NODES>");
    let mut o = format!(
        "S{} S{} S{} S{} A {} C {} P ",
        hex(node),
        hex(name),
        hex(&uri),
        hex(env),
        canon_strs(apps),
        canon_strs(classes)
    );
    canon_map(params, false, &mut o);
    o
}

fn canon_index(ix: &std::collections::HashMap<String, Vec<String>>) -> String {
    let mut keys: Vec<&String> = ix.keys().collect();
    keys.sort();
    let mut o = String::new();
    for k in keys {
        o.push_str(&format!(" S{} {}", hex(k), canon_strs(&ix[k])));
    }
    o
}

pub struct InvCase {
    pub dir: PathBuf,
    pub reclass: anyhow::Result<Reclass>,
    pub nodes_root: String,
}

pub fn setup_inv(t: &mut Toks) -> Result<InvCase, String> {
    let ignore = p_bool(t)?;
    let compose = p_bool(t)?;
    let dots = p_bool(t)?;
    let patterns = t.strings()?;
    let _matches = t.strings()?;
    let cfiles = p_files(t)?;
    let nfiles = p_files(t)?;
    let dir = scratch_dir();
    write_tree(&dir.join("classes"), &cfiles)?;
    write_tree(&dir.join("nodes"), &nfiles)?;
    let inv = dir.to_str().unwrap().to_string();
    let nodes_root = format!("{inv}/nodes");
    // every other case names its inventory by a path relative to the working directory (which is moved next to
    // the case's scratch directory): what is reported about files -- the node URIs -- is absolute all the same
    static CASE_NO: std::sync::atomic::AtomicUsize = std::sync::atomic::AtomicUsize::new(0);
    let rel = CASE_NO.fetch_add(1, std::sync::atomic::Ordering::SeqCst) % 2 == 1;
    let inv_arg = if rel {
        // (the working directory is the case's own scratch directory; it is moved back when the case is done)
        std::env::set_current_dir(&dir).map_err(|e| e.to_string())?;
        ".".to_string()
    } else {
        inv.clone()
    };
    let reclass = (|| -> anyhow::Result<Reclass> {
        let mut cfg = hooks::Config::new(Some(&inv_arg), None, None, Some(ignore))?;
        cfg.compose_node_name = compose;
        if dots {
            cfg.compatflags.insert(hooks::CompatFlag::ComposeNodeNameLiteralDots);
        }
        // the default pattern list is left as the constructor made it (the setter recompiles the set)
        if patterns != vec![".*".to_string()] {
            cfg.set_ignore_class_notfound_regexp(patterns)?;
        }
        Reclass::new_from_config(cfg)
    })();
    Ok(InvCase {
        dir,
        reclass,
        nodes_root,
    })
}

pub fn run(mode: &str, t: &mut Toks) -> Result<String, String> {
    match mode {
        "abs" => {
            let loc = t.strings()?;
            let cls = t.string()?;
            let l = if loc.is_empty() {
                None
            } else {
                Some(PathBuf::from(loc.join("/")))
            };
            Ok(match hooks::Node::verif_abs_class_name(l, &cls) {
                Ok(s) => format!("ok S{}", hex(&s)),
                Err(e) => err_line(&format!("{e}")),
            })
        }
        "inv" => {
            let case = setup_inv(t)?;
            let op = t.next()?.to_string();
            let res = (|| -> Result<String, String> {
                let r = match &case.reclass {
                    Ok(r) => r,
                    Err(e) => return Ok(err_line(&format!("{e}"))),
                };
                match op.as_str() {
                    "node" => {
                        let name = t.string()?;
                        Ok(match r.render_node(&name) {
                            Ok(i) => format!(
                                "ok {}",
                                canon_nodeinfo_parts(
                                    &i.reclass.node,
                                    &i.reclass.name,
                                    &i.reclass.uri,
                                    &i.reclass.environment,
                                    &i.applications,
                                    &i.classes,
                                    &i.parameters,
                                    &case.nodes_root
                                )
                            ),
                            Err(e) => err_line(&format!("{e}")),
                        })
                    }
                    "seq" => {
                        // a sequence of render calls on ONE instance ("*" = the whole inventory)
                        let names = t.strings()?;
                        let mut outs = vec![];
                        for name in names {
                            if name == "*" {
                                outs.push(match r.render_inventory() {
                                    Ok(_) => "inv-ok".to_string(),
                                    Err(_) => "inv-err".to_string(),
                                });
                                continue;
                            }
                            outs.push(match r.render_node(&name) {
                                Ok(i) => format!(
                                    "ok {}",
                                    canon_nodeinfo_parts(
                                        &i.reclass.node,
                                        &i.reclass.name,
                                        &i.reclass.uri,
                                        &i.reclass.environment,
                                        &i.applications,
                                        &i.classes,
                                        &i.parameters,
                                        &case.nodes_root
                                    )
                                ),
                                Err(e) => err_line(&format!("{e}")),
                            });
                        }
                        Ok(format!("seq {}", outs.join(" ;; ")))
                    }
                    "conc" => {
                        // the named nodes rendered again and again on ONE instance while another thread keeps
                        // rendering the whole inventory on that same instance: every render equals the first one
                        let names = t.strings()?;
                        let render = |name: &str| match r.render_node(name) {
                            Ok(i) => format!(
                                "ok {}",
                                canon_nodeinfo_parts(
                                    &i.reclass.node,
                                    &i.reclass.name,
                                    &i.reclass.uri,
                                    &i.reclass.environment,
                                    &i.applications,
                                    &i.classes,
                                    &i.parameters,
                                    &case.nodes_root
                                )
                            ),
                            Err(e) => err_line(&format!("{e}")),
                        };
                        let base: Vec<String> = names.iter().map(|n| render(n)).collect();
                        let stop = std::sync::atomic::AtomicBool::new(false);
                        let mut differs: Option<String> = None;
                        std::thread::scope(|sc| {
                            sc.spawn(|| {
                                while !stop.load(std::sync::atomic::Ordering::Relaxed) {
                                    let _ = r.render_inventory();
                                }
                            });
                            'outer: for round in 0..60 {
                                for (j, n) in names.iter().enumerate() {
                                    let got = render(n);
                                    if got != base[j] {
                                        differs = Some(format!("round {round} S{} {}", hex(n), got));
                                        break 'outer;
                                    }
                                }
                            }
                            stop.store(true, std::sync::atomic::Ordering::Relaxed);
                        });
                        Ok(match differs {
                            None => "conc same".to_string(),
                            Some(d) => format!("conc differs {d}"),
                        })
                    }
                    "pynode" => {
                        let name = t.string()?;
                        // Rust-side rendered data of the same node, for the equality oracle
                        let rust = match r.render_node(&name) {
                            Ok(i) => {
                                let mut o = String::new();
                                canon_map(&i.parameters, false, &mut o);
                                format!("ok {o}")
                            }
                            Err(e) => err_line(&format!("{e}")),
                        };
                        let py = crate::pymode::py_node(r, &name, &case.nodes_root)?;
                        Ok(format!("{py} ## {rust}"))
                    }
                    "pyinv" => {
                        let py = crate::pymode::py_inventory(r)?;
                        // Rust-side outcome of every node, for the "carries the underlying message" oracle
                        let mut names: Vec<String> = r.nodes().map_err(|e| e.to_string())?.into_keys().collect();
                        names.sort();
                        let mut errs = String::new();
                        for n in names {
                            if let Err(e) = r.render_node(&n) {
                                errs.push_str(&format!(" S{} S{}", hex(&n), hex(&format!("{e}"))));
                            }
                        }
                        Ok(format!("{py} ## errs{errs}"))
                    }
                    "fault" => {
                        // apply a file-system fault after construction, then render
                        let kind = t.next()?.to_string();
                        let rel = t.strings()?;
                        let name = t.string()?;
                        let mut p = case.dir.clone();
                        for s in &rel {
                            p.push(s);
                        }
                        match kind.as_str() {
                            "delete" => {
                                let _ = std::fs::remove_file(&p);
                            }
                            "todir" => {
                                let _ = std::fs::remove_file(&p);
                                let _ = std::fs::create_dir_all(&p);
                            }
                            "garbage" => {
                                let _ = std::fs::write(&p, [0xffu8, 0xfe, 0x00, 0x80, b':', b'[']);
                            }
                            "truncate" => {
                                let _ = std::fs::write(&p, b"parameters:\n  a: [1, 2\n");
                            }
                            _ => return Err(format!("bad fault {kind}")),
                        }
                        Ok(match r.render_node(&name) {
                            Ok(_) => "ok rendered".to_string(),
                            Err(e) => err_line(&format!("{e}")),
                        })
                    }
                    "all" => Ok(match r.render_inventory() {
                        Ok(inv) => {
                            let (apps, classes, nodes) = inv.verif_parts();
                            let mut names: Vec<&String> = nodes.keys().collect();
                            names.sort();
                            let mut o = format!(
                                "ok A{} C{} N {}",
                                canon_index(apps),
                                canon_index(classes),
                                names.len()
                            );
                            for n in names {
                                let i = &nodes[n];
                                o.push_str(" | ");
                                o.push_str(&canon_nodeinfo_parts(
                                    &i.reclass.node,
                                    &i.reclass.name,
                                    &i.reclass.uri,
                                    &i.reclass.environment,
                                    &i.applications,
                                    &i.classes,
                                    &i.parameters,
                                    &case.nodes_root,
                                ));
                            }
                            o
                        }
                        Err(e) => err_line(&format!("{e}")),
                    }),
                    "names" => {
                        let mut o = String::from("ok N");
                        let to_ix = |m: std::collections::HashMap<String, PathBuf>| {
                            m.into_iter()
                                .map(|(k, v)| (k, vec![v.to_str().unwrap().to_string()]))
                                .collect::<std::collections::HashMap<String, Vec<String>>>()
                        };
                        o.push_str(&canon_index(&to_ix(r.nodes().map_err(|e| e.to_string())?)));
                        o.push_str(" C");
                        o.push_str(&canon_index(&to_ix(r.classes().map_err(|e| e.to_string())?)));
                        Ok(o)
                    }
                    _ => Err(format!("bad op {op}")),
                }
            })();
            let _ = std::env::set_current_dir("/");
            let _ = std::fs::remove_dir_all(&case.dir);
            res
        }
        _ => Err(format!("mode {mode} not implemented")),
    }
}

// Modes that need a directory tree on disk (filled in later).
use crate::Toks;
pub fn run(mode: &str, _t: &mut Toks) -> Result<String, String> {
    Err(format!("mode {mode} not implemented"))
}

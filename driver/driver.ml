(* Reads one case per line on stdin, evaluates the extracted Coq model (Model.run_line),
   prints one observation per line.  Only string representation conversion happens here. *)
let to_coq (s : string) : Model.string =
  let r = ref Model.EmptyString in
  for i = String.length s - 1 downto 0 do
    let c = Char.code s.[i] in
    let b k = (c lsr k) land 1 = 1 in
    r := Model.String (Model.Ascii (b 0, b 1, b 2, b 3, b 4, b 5, b 6, b 7), !r)
  done;
  !r

let of_coq (s : Model.string) : string =
  let buf = Buffer.create 256 in
  let rec go = function
    | Model.EmptyString -> ()
    | Model.String (Model.Ascii (b0, b1, b2, b3, b4, b5, b6, b7), rest) ->
        let v b k = if b then 1 lsl k else 0 in
        Buffer.add_char buf
          (Char.chr (v b0 0 + v b1 1 + v b2 2 + v b3 3 + v b4 4 + v b5 5 + v b6 6 + v b7 7));
        go rest
  in
  go s;
  Buffer.contents buf

let () =
  try
    while true do
      let line = input_line stdin in
      if String.length line > 0 then begin
        let out =
          try of_coq (Model.run_line7 (to_coq line))
          with Stack_overflow ->
            (match String.index_opt line ' ' with
             | Some i -> String.sub line 0 i ^ "\tdriver-stack-overflow"
             | None -> "?\tdriver-stack-overflow")
        in
        print_string out;
        print_char '\n'
      end
    done
  with End_of_file -> ()

# Structured generators for parameter trees and layer stacks.
from common import *  # noqa

KEYS = ['a', 'b', 'c', 'd']
STRS = ['x', 'y', '', 'foo bar', 'é', 'q"uo\\te', 'new\nline', '1', 'true', '~t', '=e', 'a:b']
INTS = [0, 1, -1, 42, 2**31, -2**63, 2**63 - 1, 2**64 - 1, 9007199254740993, 10**16]


def scalar(rng, allow_float=True):
    r = rng.random()
    if r < 0.15:
        return N
    if r < 0.3:
        return B(rng.random() < 0.5)
    if r < 0.55:
        return I(rng.choice(INTS) if rng.random() < 0.3 else rng.randint(-5, 20))
    if r < 0.65 and allow_float and FLOATS:
        return ('f', rng.choice(FLOATS))
    return S(rng.choice(STRS) if rng.random() < 0.5 else rng.choice('xyzuvw'))


def plain_value(rng, depth, keys=KEYS, p_container=0.5):
    if depth <= 0 or rng.random() > p_container:
        return scalar(rng)
    if rng.random() < 0.4:
        return ('l', [plain_value(rng, depth - 1, keys, p_container) for _ in range(rng.randint(0, 3))])
    return plain_map(rng, depth - 1, keys, p_container)


def plain_map(rng, depth, keys=KEYS, p_container=0.5, markers=0.0, nonstr_keys=0.0):
    ks = [k for k in keys if rng.random() < 0.6]
    rng.shuffle(ks)
    es = []
    for k in ks:
        key = S(k)
        if markers and rng.random() < markers:
            key = S(rng.choice('~=') + k)
        es.append((key, plain_value(rng, depth, keys, p_container) if not markers else
                   marked_value(rng, depth, keys, p_container, markers)))
    if nonstr_keys and rng.random() < nonstr_keys:
        es.append((rng.choice([I(1), B(True), N, I(-3)]), scalar(rng)))
    if markers and rng.random() < 0.04:
        # a key that consists of a marker only: the key "" with that marker
        es.append((S(rng.choice(['=', '~'])), scalar(rng)))
    return ('m', es)


def marked_value(rng, depth, keys, p_container, markers):
    if depth <= 0 or rng.random() > p_container:
        return scalar(rng)
    if rng.random() < 0.3:
        return ('l', [plain_value(rng, depth - 1, keys, p_container) for _ in range(rng.randint(0, 3))])
    return plain_map(rng, depth - 1, keys, p_container, markers)


def stack(rng, nlayers, depth, markers=0.15, keys=KEYS, nonstr_keys=0.05):
    return [plain_map(rng, depth, keys, 0.6, markers, nonstr_keys) for _ in range(nlayers)]


def has_shared_key(layers):
    """some key (after stripping one marker) defined by >= 2 layers at top level or below"""
    def strip(k):
        if k[0] == 's' and k[1][:1] in ('~', '='):
            return ('s', k[1][1:])
        return k

    def go(maps):
        seen = {}
        for m in maps:
            for k, v in m[1]:
                seen.setdefault(repr(strip(k)), []).append(v)
        for vs in seen.values():
            if len(vs) >= 2:
                return True
        for vs in seen.values():
            sub = [v for v in vs if v[0] == 'm']
            if len(sub) >= 2 and go(sub):
                return True
        return False
    return go(layers)


def has_marker(layers, ch):
    def go(a):
        if a[0] == 'm':
            return any((k[0] == 's' and k[1].startswith(ch)) or go(v) for k, v in a[1])
        if a[0] == 'l':
            return any(go(x) for x in a[1])
        return False
    return any(go(l) for l in layers)


def stack_line(cid, mode, layers):
    return '%s %s %d %s' % (cid, mode, len(layers), ' '.join(enc(l) for l in layers))


def stack_show(layers):
    return ' <- '.join(show(l) for l in layers)


# ---------------------------------------------------------------- references
def paths_of(a, prefix=()):
    """all key paths (tuples of str) into a mapping AST (string keys, markers stripped)"""
    out = []
    if a[0] == 'm':
        for k, v in a[1]:
            if k[0] != 's':
                continue
            name = k[1][1:] if k[1][:1] in ('~', '=') else k[1]
            if ':' in name or name == '':
                continue
            p = prefix + (name,)
            out.append(p)
            out.extend(paths_of(v, p))
    return out


def ref_string(rng, paths, p_embed=0.35, p_nested=0.15, p_missing=0.05):
    def one():
        if rng.random() < p_missing or not paths:
            return '${' + rng.choice(['nope', 'a:zz', 'zz:a']) + '}'
        p = rng.choice(paths)
        if rng.random() < p_nested and len(p) >= 1:
            # nested: replace one segment by a reference to a key holding that segment's text
            return '${' + ':'.join(p[:-1] + ('${' + rng.choice(['kx', 'ky'] + [':'.join(q) for q in paths[:3]]) + '}',)) + '}'
        return '${' + ':'.join(p) + '}'
    r = rng.random()
    if r < p_embed:
        parts = []
        for _ in range(rng.randint(1, 3)):
            parts.append(rng.choice(['', 'x', '-', ' ', '\\${lit}', '\\\\', '$', '}', 'é']))
            parts.append(one())
        parts.append(rng.choice(['', 'z', '\\$[q]']))
        return ''.join(parts)
    return one()


def inject_refs(rng, a, paths, p=0.25):
    """replace random scalar leaves by reference strings"""
    t = a[0]
    if t == 'm':
        return ('m', [(k, inject_refs(rng, v, paths, p)) for k, v in a[1]])
    if t == 'l':
        return ('l', [inject_refs(rng, x, paths, p) for x in a[1]])
    if rng.random() < p:
        return S(ref_string(rng, paths))
    return a


def ref_stack(rng, nlayers, depth, markers=0.1, p=0.25):
    layers = stack(rng, nlayers, depth, markers, nonstr_keys=0.03)
    paths = []
    for l in layers:
        paths.extend(paths_of(l))
    paths = sorted(set(paths))
    # helper keys used by nested references
    if paths:
        layers[0] = ('m', layers[0][1] + [(S('kx'), S(rng.choice(paths)[-1])), (S('ky'), S(rng.choice(KEYS)))])
    return [inject_refs(rng, l, paths, p) for l in layers]


def count_refs(a):
    t = a[0]
    if t == 's':
        return a[1].count('${')
    if t == 'm':
        return sum(count_refs(k) + count_refs(v) for k, v in a[1])
    if t == 'l':
        return sum(count_refs(x) for x in a[1])
    return 0


# ---------------------------------------------------------------- acyclic-by-rank reference graphs
def ranked_root(rng, n=None, chain=None, cyc=False):
    """Root mapping with keys r0..r(n-1): r_i may reference only r_j with j < i (so the
    reference graph is acyclic by construction) unless cyc, in which case one back edge is
    inserted.  Returns (layers, info) where info[k] = list of (kind, target path) of the
    references key k holds."""
    n = n or rng.randint(2, 8)
    keys = ['r%d' % i for i in range(n)]
    entries = []
    info = {}
    sub = {}     # key -> sub-paths available (for map targets)
    layers2 = []

    def target_path(j):
        k = keys[j]
        if sub.get(k) and rng.random() < 0.4:
            return k + ':' + rng.choice(sub[k])
        return k
    # pointer mode: key `ptr` holds the path of r0 (or a sub-path); fully indirect references
    # ${${ptr}} select it, and the selected value itself mentions ${ptr} again (acyclic: ptr is plain text)
    ptrmode = (not chain) and rng.random() < 0.2
    ptr_path = None
    for i, k in enumerate(keys):
        refs = []
        if ptrmode and i == 0:
            if rng.random() < 0.7:
                v = ('m', [(S('x'), scalar(rng)), (S('by'), S(rng.choice(['${ptr}', 'via-${ptr}']))),
                           (S('z'), ('m', [(S('w'), scalar(rng)), (S('by'), S('${ptr}'))]))])
                sub[k] = ['x', 'z', 'z:w']
                ptr_path = rng.choice(['r0', 'r0:z', 'r0:by'])
            else:
                v = ('l', [scalar(rng), S('${ptr}'), S('<${ptr}>')])
                ptr_path = 'r0'
            entries.append((S('ptr'), S(ptr_path)))
        elif ptrmode and rng.random() < 0.4:
            r = rng.random()
            if r < 0.6:
                v = S('${${ptr}}')
                refs.append(('whole', ptr_path))
            elif r < 0.8:
                v = ('l', [S('${${ptr}}')])
                refs.append(('list', ptr_path))
            else:
                v = S('${%s}' % keys[rng.randint(0, i - 1)])
                layers2.append((S(k), S('${${ptr}}')))
                refs.append(('layer', ptr_path))
        elif i == 0 or rng.random() < 0.25:
            # a base value
            r = rng.random()
            if r < 0.35:
                v = ('m', [(S('x'), scalar(rng)), (S('y'), ('l', [scalar(rng)])), (S('z'), ('m', [(S('w'), scalar(rng))]))])
                sub[k] = ['x', 'y', 'z', 'z:w']
                if rng.random() < 0.3:
                    # keys with a dollar or a backslash that is no marker: literal text of a reference path
                    v = ('m', v[1] + [(S('$d'), scalar(rng)), (S('b\\s'), ('l', [scalar(rng)]))])
                    sub[k] = sub[k] + ['$d', 'b\\s']
                if rng.random() < 0.3:
                    # a member that refers to sibling members by their full paths: looking at the whole
                    # mapping ${rK} then meets ${rK:x} while rK is being resolved (no cycle: different paths)
                    v = ('m', v[1] + [(S('sib'), S(rng.choice(['${%s:x}', '<${%s:z:w}>', '${%s:z}']) % k))])
                    sub[k] = sub[k] + ['sib']
            elif r < 0.5:
                v = ('l', [scalar(rng), scalar(rng)])
            else:
                v = scalar(rng)
        else:
            if chain:
                j = i - 1
            else:
                j = rng.randint(0, i - 1)
            tp = target_path(j)
            r = rng.random()
            if r < 0.35:
                v = S('${%s}' % tp)
                refs.append(('whole', tp))
                if keys[j] in sub and tp == keys[j]:
                    sub[k] = sub[keys[j]]
            elif r < 0.5:
                v = S('pre-${%s}-post' % tp)
                refs.append(('embedded', tp))
            elif r < 0.6:
                j2 = rng.randint(0, i - 1)
                v = ('l', [S('${%s}' % tp), S('${%s}' % keys[j2]), S('${%s}' % tp)])
                refs.append(('list', tp))
            elif r < 0.7:
                v = ('m', [(S('x'), S('${%s}' % tp)), (S('y'), S('${%s}' % tp))])
                sub[k] = ['x', 'y']
                refs.append(('mapval', tp))
            elif r < 0.8 and any(sub.get(keys[q]) for q in range(i)):
                # multi-layer mapping key whose layers are references (same path twice, or a
                # diamond); later keys look into it with nested paths ${k:x}
                cands = [q for q in range(i) if sub.get(keys[q])]
                j1 = rng.choice(cands)
                v = S('${%s}' % keys[j1])
                second = rng.choice([S('${%s}' % keys[j1]), S('${%s}' % keys[rng.choice(cands)]), M(('q', I(1))), M(('x', S('ov')))])
                layers2.append((S(k), second))
                if rng.random() < 0.3:
                    layers2.append((S(k), rng.choice([N, S('${%s}' % keys[j1]), M(('x', I(7)))])))
                sub[k] = [p_ for p_ in sub[keys[j1]] if ':' not in p_]
                refs.append(('layer', keys[j1]))
            elif r < 0.88:
                # layer: this key defined twice, second definition is a reference or a map
                v = S('${%s}' % tp)
                layers2.append((S(k), rng.choice([S('${%s}' % keys[rng.randint(0, i - 1)]), M(('q', I(1))), L(I(5)), N])))
                refs.append(('layer', tp))
            else:
                # nested path: ${rj:${name}} where name key holds a segment
                kk = keys[j]
                if sub.get(kk):
                    seg = rng.choice([s for s in sub[kk] if ':' not in s])
                    entries.append((S('seg_%s' % k), S(seg)))
                    v = S('${%s:${seg_%s}}' % (kk, k))
                    refs.append(('nested', kk + ':' + seg))
                else:
                    v = S('${%s}' % tp)
                    refs.append(('whole', tp))
        info[k] = refs
        entries.append((S(k), v))
    if cyc:
        # back edge from an early key to a late one through a random placement
        i = rng.randint(0, n - 2)
        j = rng.randint(i + 1, n - 1) if rng.random() < 0.8 else i
        place = rng.choice(['whole', 'embedded', 'list', 'mapval', 'layer'])
        ref = '${%s}' % keys[j]
        k = keys[i]
        if place == 'whole':
            nv = S(ref)
        elif place == 'embedded':
            nv = S('a' + ref)
        elif place == 'list':
            nv = ('l', [I(1), S(ref)])
        elif place == 'mapval':
            nv = ('m', [(S('x'), S(ref))])
        else:
            nv = None
            layers2.append((S(k), S(ref)))
        if nv is not None:
            entries = [(kk, (nv if kk == S(k) else vv)) for kk, vv in entries]
        # make sure the late key really reaches the early one
        # (as its whole value, embedded in text -- so that a container on the cycle is turned into
        # text --, or from inside a container)
        link = rng.choice([S('${%s}' % k), S('${%s}' % k), S('t=${%s}' % k), ('l', [S('${%s}' % k)]), ('m', [(S('y'), S('<${%s}>' % k))])])
        entries = [(kk, (link if kk == S(keys[j]) and j != i else vv)) for kk, vv in entries]
        info['__cycle__'] = (k, keys[j], place)
    rng.shuffle(entries)
    layers = [('m', entries)]
    while layers2:
        cur, rest, seen = [], [], set()
        for kk, vv in layers2:
            if kk in seen:
                rest.append((kk, vv))
            else:
                seen.add(kk)
                cur.append((kk, vv))
        layers.append(('m', cur))
        layers2 = rest
    return layers, info


def spine_map(rng, depth, leafbase):
    """nested mapping along keys a/b/c/... of the given depth with sibling leaves"""
    keys = ['a', 'b', 'c', 'd', 'e']
    v = ('m', [(S('leaf'), I(leafbase)), (S(rng.choice(['p', 'q'])), scalar(rng))])
    for i in reversed(range(depth)):
        es = [(S(keys[i]), v)]
        if rng.random() < 0.5:
            es.append((S('s%d' % i), scalar(rng)))
        rng.shuffle(es)
        v = ('m', es)
    return v


def deep_ref_layers(rng):
    """a key defined by several layers, some of them references that resolve to deep mappings:
    conflicts (same leaf defined by several layers) sit 2-5 levels below the key"""
    depth = rng.randint(1, 4)
    nl = rng.randint(2, 4)
    helpers, layers = [], []
    for i in range(nl):
        v = spine_map(rng, depth, i)
        if rng.random() < 0.55:
            helpers.append((S('h%d' % i), v))
            v = S('${h%d}' % i)
        layers.append(('m', [(S('foo'), v)]))
    layers[0] = ('m', layers[0][1] + helpers + [(S('via'), S('${foo}'))])
    return layers

#!/usr/bin/env python3
# Regenerates /verif/MANIFEST.json from the table below (keeps the file consistent).
import json, os, subprocess
VERIF = os.path.dirname(os.path.dirname(os.path.abspath(__file__)))

NOTE = ('Trusted: Coq 8.16.1 kernel; the hand-written Gallina model (coq/Model) is tied to /repo on every run by the differential '
        'correspondence run of this check (extracted model vs. implementation on the same generated inputs); extraction '
        '(ExtrOcamlBasic), OCaml driver, Rust harness, Python generators/differ. Not modelled: YAML text parsing and merge keys, '
        'regex engine, walkdir/std::path, float formatting, rayon, PyO3 glue. ')

P = {
 'C01': ('Theorems about the include walk of the model (coq/Props/C01.v: the walk is the ordered merge of the recorded classes, each once, post-order, node last; include loops are errors; the walk returns for every graph) + differential run on random include graphs with an independent trace oracle (post-order, each class once, node last, one class per reference-bearing entry).', 'include walk: induction on fuel + correspondence + merge-order oracle'),
 'C02': ('Refinement theorem (coq/Props/C02.v, Proofs/Refinement.v): the render of every stack of reference-free clean layers, at any nesting depth, is the value (or the constant-key / type-conflict error) of the deep-merge specification Spec/DeepMerge.v; for stacks WITH references the render is the render (and, reference-free twin, the deep merge) of the stack with the references inlined (Proofs/TwinStack.v); kind table of Value::merge + exhaustive small-scope and random differential run, spec evaluated as oracle on every clean-key stack.', 'refinement to the deep-merge specification (simulation, induction on fuel) + correspondence'),
 'C03': ('General path theorem (coq/Props/C03.v, Proofs/PathFacts.v): a reference with a path of any length, assembled from any tokens, renders to the lookup of its segments in the fully rendered parameters, through mappings, references and multiply-defined values; the result does not depend on the order in which the parameters are written nor on which class defines the target (Proofs/OrderIndep.v, DefiningClass.v); uniqueness of rendered values + differential run on acyclic reference graphs with self-consistency (out[k] == out@path) and permutation-twin oracles.', 'walk/lookup commutation by simulation of layer merges + induction on fuel + correspondence + metamorphic oracles'),
 'C04': ('Inline-twin theorem (coq/Props/C04.v, Proofs/Twin.v): replacing, anywhere in the parameters and at any nesting depth, reference strings by the closed values they render to gives parameters that render with the same fuel to the very same result (simulation of the eight mutually recursive functions of the interpreter), also when the replacement is written the way a document writes it (strings as plain strings; second simulation, Proofs/Unrender.v); transparency of a reference layer at a ValueList node + metamorphic twin runs (inline vs reference layers) on the implementation.', 'simulation (refinement between the two renders, induction on fuel) + metamorphic twins + correspondence'),
 'C05': ('End-to-end template theorems (coq/Props/C05.v, Proofs/TemplateRender.v, TemplateAny.v: a string of any number of literal pieces -- arbitrary characters, escaped markers -- and references renders to the concatenation of the pieces and of the specified text forms of what the references render to) and theorems about the text form (Spec/TextOf.v) + differential run with the extracted specification text_of applied to the implementation output as oracle.', 'text-form specification + structural induction + correspondence'),
 'C06': ('Theorems about the parser model (coq/Props/C06.v: marker-free identity, termination, every template of plain text and simple references of any length parses to its pieces, reference trees nested to any depth within the limit parse back, strings with escaped markers at the top level and inside references parse to the decoded pieces, every string spelled by texts of arbitrary characters (lone $ { } and backslashes included), escapes and reference trees is accepted and parses to the decoded pieces, unclosed / empty references after any such string are errors) + exhaustive comparison of parse trees over the grammar alphabet through the Token hook.', 'parser combinator model + induction + exhaustive correspondence'),
 'C07': ('Closedness and fixed-point theorems over the fuelled interpreter (coq/Props/C07.v: every successful interpolation returns closed data; what a render returns renders again, with the same fuel and against any parameters, to itself) + render-twice differential run with a closedness oracle on the implementation output.', 'invariant by induction on fuel + correspondence'),
 'C08': ('Termination theorem (coq/Props/C08.v, Proofs/Termination.v: every well-formed parameter mapping, cyclic graphs included, renders to one value or error from some fuel on, never a panic), acyclic chains of whole-value references of any length render exactly up to the depth limit of 64 and are depth errors beyond (Proofs/Chains.v), cycles of whole-value references of any length are reported as loop/depth errors, no placement of a cycle (embedded, list, mapping, layer, member path -- also through referenced and multiply-defined members) yields a value, depth bound and loop error characterisation, what renders at some state renders at every state no further along a chain (Proofs/StateDown.v) + differential run on cyclic/acyclic reference graphs, sharing and chains around the limit 64.', 'termination by a lexicographic measure (reference budget, value structure) + state invariants + correspondence'),
 'C09': ('Theorems about insert_impl / Mapping::merge and constant keys, end to end at any nesting depth through the C02 refinement, and for constants delivered by references through the inline-twin theorem (coq/Props/C09.v) + differential run with Spec/DeepMerge.v as oracle.', 'local laws of insert_impl + deep-merge specification + correspondence'),
 'C10': ('Theorems about override keys in insert_impl / Mapping::merge, end to end at any nesting depth through the C02 refinement, and for overrides delivered inside referenced mappings through the inline-twin theorem (coq/Props/C10.v) + differential run with Spec/DeepMerge.v as oracle.', 'local laws of insert_impl + deep-merge specification + correspondence'),
 'C11': ('No-panic and always-returns theorems for the modelled pipeline from the YAML AST on (coq/Props/C11.v: render_node yields one value or error from some fuels on for every include graph and reference graph; every todo!/unreachable!/unwrap/panic! site on a modelled path is an outcome of the model) + crash-freedom streams (AST fuzz, byte-level files, deep inputs, file-system faults) with panic capture and process-death attribution. PARTIAL: byte-level YAML parsing, file-system faults and stack exhaustion live in libraries/runtime and are covered by the correspondence run only.', 'panic sites as outcomes + unreachability lemmas + crash-freedom runs'),
 'C12': ('Theorems that inventory aggregation is invariant under every permutation of worker results and that each entry is the single-node render (coq/Props/C12.v) + renders under rayon pools of 1..16 threads, repeated and shuffled, call sequences on one instance, and one instance used from two threads at once. PARTIAL: absence of shared mutable state across threads is a runtime fact covered by the differential runs and a static audit only.', 'permutation invariance + multi-pool differential runs'),
 'C13': ('Theorems about the aggregation loop of the model (indexes are the sorted exact inverse; fails iff a node fails; coq/Props/C13.v) + differential run through the index accessor hook with an inverse-index oracle on the implementation output.', 'loop invariant by induction over the result list + correspondence'),
 'C14': ('Theorems about name derivation (the naming rule for every directory path, stem and YAML extension; other files ignored) and duplicate detection (coq/Props/C14.v) + random directory trees compared with the model and with a Python reading of the naming rule. PARTIAL: walkdir / symlink following / std::path are the trusted bridge from a real directory to the entry list.', 'functional specification + induction over the entry list + correspondence'),
 'C15': ('Theorems about abs_class_name (coq/Props/C15.v) + exhaustive small-scope comparison through the hook + relative/absolute twin inventories.', 'structural lemmas on dot counting + exhaustive correspondence + twins'),
 'C16': ('Theorems about read_class with the ignore flag and pattern oracle (coq/Props/C16.v) + twin inventories with/without the missing include under a flag x pattern matrix.', 'case analysis on read_class + twins + correspondence'),
 'C18': ('Theorems about as_reclass / node metadata (node, name, uri, environment of every NodeInfo render_node returns; parts of a discovered node file; coq/Props/C18.v) + node files over depth x dots x underscores x composition x compat flag with a Python reading of the property as oracle.', 'functional specification + correspondence'),
 'C19': ('Theorems about the conversion to a Python object algebra with Python dict semantics (coq/Props/C19.v) + embedded-CPython runs comparing Python objects with the Rust-side rendered data and as_dict() with attribute views. PARTIAL: PyO3 primitive conversions and exception mapping are covered by the embedded-CPython runs only. Known findings: Python key collisions (True/1), unhashable keys.', 'object-algebra model + structural induction + embedded CPython correspondence'),
 'C20': ('Theorems about the configuration state machine (entry points agree, reported = compiled after every history incl. failed calls; coq/Props/C20.v) + histories and three-entry-point option sets through Rust and Python (Config.from_dict) with reported-vs-behaviour oracle.', 'state-machine invariant over operation sequences + correspondence'),
 'C17': ('Theorems in coq/Props/C17.v (invariant over every sequence of loaded and merged application lists; exact post-conditions of ~x on a present / absent item and of an addition after a remembered negation; merge = replay in order; end to end with the include walk: the application list of a node is the replay of the lists of the recorded classes in walk order, then its own) hold for all lists of any length; tied to src/list/*.rs by an exhaustive small-scope + random differential run through the hook.', 'induction over operation sequences (invariants) + exhaustive correspondence'),
}
PENDING = []

def main():
    hooks = subprocess.run(['git', '-C', '/repo', 'log', '--format=%h %s'], stdout=subprocess.PIPE).stdout.decode().split('\n')
    hook_commits = [l.split(' ')[0] for l in hooks if l.startswith(tuple('0123456789abcdef')) and 'verif hooks' in l]
    checks = []
    for pid in sorted(P):
        text, tech = P[pid]
        checks.append({
            'property_id': pid,
            'quick_cmd': './check %s --tier quick' % pid,
            'thorough_cmd': './check %s --tier thorough' % pid,
            'evidence_file': '/verif/evidence/%s.json' % pid,
            'replay_cmd_template': './check %s --replay {path}' % pid,
            'engine': 'coq-model',
            'level_claimed': {'category': 'proof', 'text': text, 'design_ref': 'DESIGN.md section 5, ' + pid},
            'level_note': NOTE,
            'technique': 'Coq proof (%s)' % tech,
        })
    m = {
        'version': 1,
        'setup_cmd': './setup',
        'hooks': {
            'guard': 'reclass_rs_verif',
            'enable': 'RUSTFLAGS="--cfg reclass_rs_verif" (set in /verif/harness/.cargo/config.toml; the harness depends on /repo by path)',
            'baseline_off_cmd': 'cd /repo && cargo test --workspace --no-fail-fast --offline',
            'source_commits': hook_commits,
            'add_only': True,
        },
        'engines': [
            {'name': 'coq-model', 'path': 'coq', 'serves_properties': sorted(P),
             'kind_free_text': 'Gallina model + Coq 8.16.1 proofs; extracted to OCaml (driver/) for the correspondence run'},
            {'name': 'harness', 'path': 'harness', 'serves_properties': sorted(P),
             'kind_free_text': 'Rust harness running the same cases through /repo\'s current working tree'},
        ],
        'checks': checks,
        'not_applicable': [{'property_id': p, 'reason': 'check not registered yet (being built in this session); the technique applies'} for p in PENDING if p not in P],
        'notes': 'See DESIGN.md. known_findings.txt lists repaired defects (fixed:) and recorded findings.',
    }
    json.dump(m, open(os.path.join(VERIF, 'MANIFEST.json'), 'w'), indent=1)

if __name__ == '__main__':
    main()

# C09: constant keys cannot be changed by later layers.
import valgen as V
import props.merge_common as MC
from common import *  # noqa


def const_stack(rng):
    """a stack with `=k` at a random layer and depth, later writers of every kind, optional
    enclosing replacement (null / override of the enclosing mapping)"""
    depth = rng.randint(0, 2)
    kn = '' if rng.random() < 0.08 else 'k'      # also: the constant key with the empty name, spelled `=`
    nl = rng.randint(2, 5)
    ci = rng.randint(0, nl - 2)
    path = ['p%d' % d for d in range(depth)]

    def wrap(inner, layer_i):
        v = inner
        for seg in reversed(path):
            v = ('m', [(S(seg), v)] + ([(S('sib'), I(layer_i))] if rng.random() < 0.3 else []))
        return v
    layers = []
    for i in range(nl):
        if i < ci:
            inner = ('m', [(S(rng.choice([kn, kn, 'j'])), V.plain_value(rng, 1))])
        elif i == ci:
            inner = ('m', [(S('=' + kn), V.plain_value(rng, 1)), (S('j'), I(i))])
        else:
            r = rng.random()
            if r < 0.2:
                inner = ('m', [(S(kn), V.plain_value(rng, 1))])
            elif r < 0.35:
                inner = ('m', [(S('~' + kn), V.plain_value(rng, 1))])
            elif r < 0.45:
                inner = ('m', [(S('=' + kn), V.plain_value(rng, 1))])
            elif r < 0.55:
                inner = ('m', [(S(kn), N)])
            elif r < 0.75:
                inner = ('m', [(S('j'), V.scalar(rng))])          # other key: unaffected
            elif r < 0.85 and depth > 0:
                # replace an enclosing mapping as a whole
                d = rng.randint(0, depth - 1)
                v = N if rng.random() < 0.5 else ('m', [(S(kn), I(99))])
                key = path[d] if v == N else '~' + path[d]
                for seg in reversed(path[:d]):
                    v = ('m', [(S(seg), v)])
                    key = seg
                if d == 0:
                    layers.append(('m', [(S(key), v)]))
                else:
                    layers.append(v)
                continue
            else:
                inner = ('m', [])
        layers.append(wrap(inner, i) if depth else inner)
    return layers


def run(tier, rng, C):
    stacks = [s for s in MC.exhaustive_kind_stacks(3 if tier == 'thorough' else 2, markers=('', '~', '=')) if V.has_marker(s, '=')]
    n = 4000 if tier == 'quick' else 120000
    for _ in range(n):
        stacks.append(const_stack(rng))
    stacks += MC.nested_sequences(rng, 1500 if tier == 'quick' else 40000, markers=('', '', '=', '=', '~'))
    cases = MC.build_cases(C, stacks)
    for c in cases:
        c['nontrivial'] = V.has_marker(c['layers'], '=') and V.has_shared_key(c['layers'])
    # constants delivered through a merged reference: `cfg` is built from layers whose member k is written with
    # any marker before it is frozen by `=k`; `copy` receives ${cfg} (whole value, or as a member) and a later layer
    # writes copy's k.  The specification is applied to the stack with the reference written out.
    for i in range(150 if tier == 'quick' else 4000):
        pre = [M((rng.choice(['k', '~k', 'k', 'j']), V.plain_value(rng, 1))) for _ in range(rng.randint(0, 2))]
        frozen = V.plain_value(rng, 1)
        cfg_layers = pre + [M(('=k', frozen), ('o', I(i)))]
        nest = rng.random() < 0.4
        wr = M((rng.choice(['k', 'k', '~k', '=k', 'j']), rng.choice([S('changed'), N, V.plain_value(rng, 1)])))
        def at(v):
            return M(('copy', M(('inner', v)))) if nest else M(('copy', v))
        layers = [M(('cfg', l)) for l in cfg_layers] + [at(S('${cfg}')), at(wr)]
        later = rng.random() < 0.3
        # (a reference sees the parameter as it finally is: a later direct writer on cfg itself is one of the layers
        #  that ${cfg} delivers, although it is written after the reference)
        seen_by_ref = cfg_layers + ([wr] if later else [])
        inl = [M(('cfg', l)) for l in cfg_layers] + [at(l) for l in seen_by_ref] + [at(wr)]
        if later:
            layers.append(M(('cfg', wr)))
            inl.append(M(('cfg', wr)))
        cid = C.case_id('rc', i)
        cases.append({'id': cid, 'line': V.stack_line(cid, 'value', layers), 'show': V.stack_show(layers),
                      'clean': all(MC.clean_layer(l) for l in inl), 'layers': layers, 'nontrivial': True,
                      'spec_line': V.stack_line(cid, 'spec', inl)})
    rule = ('exhaustive kind stacks containing a constant marker (top level and nested) + %d random stacks with =k at a random '
            'layer and depth 0-2, later writers plain/~/=/null/other-key, enclosing mapping replaced by null or override; '
            'non-trivial = a constant marker and a key defined by >= 2 layers; plus sequences of 3-5 layers giving one nested key values of random kinds (nulls, empty containers); plus constants delivered through a merged reference (${cfg} as a whole value or member, then a later writer; specification applied to the stack with the reference written out); oracle = extracted Spec/DeepMerge.v' % n)
    return C.standard_run(cases, rule, key_fn=lambda c, m, i, r: 'model-impl-differ', extra_oracle=MC.spec_oracle(C))

# Shared by C02 / C09 / C10: reference-free layer stacks, differential run against the model
# and an independent oracle: Spec/DeepMerge.v (extracted) applied to the same layers decides
# value-vs-error and the exact value.
import itertools
import valgen as V
from common import *  # noqa


def clean_layer(a):
    """no mapping spells one key twice (k, ~k, =k) and keys carry at most one marker"""
    if a[0] == 'm':
        seen = set()
        for k, v in a[1]:
            if k[0] == 's':
                name = k[1][1:] if k[1][:1] in '~=' and k[1] else k[1]
                if name[:1] in ('~', '='):
                    return False
                key = ('s', name)
            elif k[0] in ('l', 'm', 't'):
                return False
            else:
                key = k
            if repr(key) in seen:
                return False
            seen.add(repr(key))
            if not clean_layer(v):
                return False
        return True
    if a[0] == 'l':
        return all(clean_layer(x) for x in a[1])
    if a[0] == 't':
        return False
    if a[0] == 's' and ('${' in a[1] or '$[' in a[1]):
        return False
    return True


def spec_oracle(C):
    def oracle(cases, mobs, iobs):
        lines = [c.get('spec_line') or c['line'].replace(' value ', ' spec ', 1) for c in cases if c.get('clean')]
        sobs = C.run_sharded(C.DRIVER, lines)
        fails = []
        for c in cases:
            if not c.get('clean'):
                continue
            s = sobs.get(c['id'])
            im = iobs.get(c['id'])
            if s is None or im is None:
                continue
            if s == 'fuel' or s.startswith('bad'):
                fails.append({'key': 'invalid', 'severity': 'corr', 'show': c['show'], 'lines': [c['line']],
                              'reason': 'invalid:spec ' + s, 'size': len(c['line'])})
                continue
            ok = True
            why = ''
            if s.startswith('ok '):
                ok = (im == s)
                why = 'specification (deep merge) gives %s' % C.describe(s)
            elif s.startswith('err EConst'):
                msg = unhx(im.split(' ')[1]) if im.startswith('err ') else ''
                ok = im.startswith('err ') and has_kw(msg, 'constant')
                why = 'specification: constant key rewritten -> error naming the key'
                if ok:
                    k = C.parse_canon(s.split(' ')[2:])[0]
                    if k and k[0] == 'str' and k[1] not in msg:
                        ok = False
                        why = 'constant-key error does not name key %r' % k[1]
            elif s.startswith('err EMerge'):
                msg = unhx(im.split(' ')[1]) if im.startswith('err ') else ''
                ok = im.startswith('err ') and (has_kw(msg, 'merge') or has_kw(msg, 'constant'))
                why = 'specification: type conflict -> error'
            elif s.startswith('panic'):
                continue
            if not ok:
                fails.append({'key': 'deep-merge:' + ('value' if s.startswith('ok') else 'error-expected'),
                              'severity': 'fail', 'show': c['show'], 'lines': [c['line']],
                              'reason': why + '; implementation: ' + C.describe(im)[:300],
                              'model': C.describe(mobs.get(c['id'], '')), 'impl': C.describe(im), 'size': len(c['line'])})
        return fails
    return oracle


KINDS = {
    'null': lambda: N,
    'bool': lambda: B(True),
    'num': lambda: I(3),
    'str': lambda: S('s'),
    'list': lambda: L(I(1)),
    'map': lambda: M(('x', I(1))),
    'map2': lambda: M(('x', L(I(2))), ('y', S('t'))),
    'list2': lambda: L(M(('x', N))),
    'emptymap': lambda: ('m', []),
    'emptylist': lambda: ('l', []),
}


def nested_sequences(rng, n, markers=('', '', '', '~', '=')):
    """n stacks of 3-5 layers that all define the same key at depth 1-3: each layer gives it a value
    of a random kind (null often, empty containers too) with an optional marker -- the grouping of
    layers (what is merged with what, and when) decides the result"""
    out = []
    names = list(KINDS)
    for _ in range(n):
        depth = rng.randint(1, 3)
        layers = []
        for _i in range(rng.randint(3, 5)):
            kind = 'null' if rng.random() < 0.3 else rng.choice(names)
            v = M((rng.choice(markers) + 'k', KINDS[kind]()))
            for d in range(depth - 1, -1, -1):
                v = M(('p%d' % d, v))
            layers.append(v)
        out.append(layers)
    return out


def exhaustive_kind_stacks(maxlayers, markers=('', '~', '=')):
    """all stacks of <= maxlayers layers over the value kinds at one key, nested once, with
    every marker combination"""
    out = []
    kinds = list(KINDS)
    for n in range(1, maxlayers + 1):
        for ks in itertools.product(kinds, repeat=n):
            for ms in itertools.product(markers, repeat=n):
                for nest in (False, True):
                    layers = []
                    for k, m in zip(ks, ms):
                        v = KINDS[k]()
                        if nest:
                            layers.append(M(('p', M((m + 'k', v), ('o', I(0))))))
                        else:
                            layers.append(M((m + 'k', v), ('o', I(0))))
                    out.append(layers)
    return out


def build_cases(C, stacks, prefix='s'):
    cases = []
    for i, layers in enumerate(stacks):
        cid = C.case_id(prefix, i)
        cases.append({'id': cid, 'line': V.stack_line(cid, 'value', layers), 'show': V.stack_show(layers),
                      'clean': all(clean_layer(l) for l in layers), 'layers': layers})
    return cases

# C12: rendering is deterministic and independent of threads and order.
import props.c13 as P13
import invgen as G
from common import *  # noqa


def symlink_inv(rng):
    """One class file (or a whole class directory) reachable under two class names through a
    symlink, with relative includes: the same file is a different class under each name."""
    inv = G.Inv()
    common = G.doc(['.settings'] + (['..shared'] if rng.random() < 0.5 else []), ['capp'], ('m', [(S('trace'), L(S('common')))]))
    inv.classes[('shared.yml',)] = G.doc([], [], ('m', [(S('trace'), L(S('shared')))]))
    inv.classes[('team1', 'common.yml')] = common
    inv.classes[('team1', 'settings.yml')] = G.doc([], ['one'], ('m', [(S('team'), S('one')), (S('quota'), I(10)), (S('trace'), L(S('team1.settings')))]))
    inv.classes[('team2', 'settings.yml')] = G.doc([], ['two'], ('m', [(S('team'), S('two')), (S('quota'), I(20)), (S('trace'), L(S('team2.settings')))]))
    inv.classes[('team2', 'common.yml')] = ('linkfile', '../team1/common.yml', common)
    if rng.random() < 0.5:
        # a symlinked directory: team3 -> team1
        inv.classes[('team3',)] = ('link', 'team1')
        inv.classes[('team3', 'common.yml')] = ('virt', common)
        inv.classes[('team3', 'settings.yml')] = ('virt', inv.classes[('team1', 'settings.yml')])
    picks = [['team1.common'], ['team2.common'], ['team2.common', 'team1.common'], ['team1.common', 'team2.common']]
    if ('team3',) in inv.classes:
        picks += [['team3.common'], ['team3.common', 'team2.common']]
    rng.shuffle(picks)
    for j, cl in enumerate(picks[:rng.randint(2, len(picks))]):
        inv.nodes[('n%d.yml' % j,)] = G.doc(cl, [], ('m', [(S('node'), S('${team}-${quota}')), (S('trace'), L(S('NODE')))]))
    return inv, set()


def selector_inv(rng):
    """Several nodes share the classes but differ in a selector parameter: the same include entry
    (with a reference) resolves to an existing class for some nodes and to a missing, ignored one
    for others -- what one node's render learns must not leak into another's."""
    inv = G.Inv()
    inv.ignore = True
    inv.patterns = rng.choice([['.*'], ['^app\\.']])
    inv.classes[('common.yml',)] = G.doc(['app.${env}'] + (['role.${role}'] if rng.random() < 0.5 else []), ['capp'],
                                         ('m', [(S('trace'), L(S('common')))] +
                                          ([(S('envname'), S('env is ${env}')), (S('roles'), L(S('${role}'), S('${env}')))] if rng.random() < 0.7 else [])))
    inv.classes[('app', 'prod.yml')] = G.doc([], ['prodapp'], ('m', [(S('app'), M(('tier', S('prod')))), (S('trace'), L(S('app.prod')))]))
    inv.classes[('role', 'web.yml')] = G.doc([], ['web'], ('m', [(S('port'), I(80)), (S('trace'), L(S('role.web')))]))
    envs = ['dev', 'prod', 'stage', 'prod', 'dev']
    rng.shuffle(envs)
    for j in range(rng.randint(3, 5)):
        inv.classes[('env%d.yml' % j,)] = G.doc([], [], ('m', [(S('env'), S(envs[j])), (S('role'), S(rng.choice(['web', 'db']) if inv.patterns == ['.*'] else 'web'))]))      # no node may fail here
        inv.nodes[('%s%d.yml' % (rng.choice('abz'), j),)] = G.doc(['env%d' % j, 'common'], [], ('m', [(S('trace'), L(S('NODE')))]))
    inv.universe.update(['app.dev', 'app.prod', 'app.stage', 'role.web', 'role.db', 'common'] + ['env%d' % j for j in range(5)])
    return inv, set()


def override_inv(rng):
    """Later classes override several keys of one mapping at once (and at two levels): values and the order of
    the keys are a function of the inventory, not of any per-run hashing."""
    inv = G.Inv()
    keys = ['a', 'b', 'c', 'd', 'e', 'f']
    inv.classes[('base.yml',)] = G.doc([], ['bapp'], ('m', [(S('m'), ('m', [(S(k), I(j)) for j, k in enumerate(keys)])),
                                                           (S('n'), M(('inner', ('m', [(S(k), S('v' + k)) for k in keys])))),
                                                           (S('trace'), L(S('base')))]))
    for j in range(rng.randint(1, 3)):
        ov = rng.sample(keys, rng.randint(2, 5))
        inv.classes[('ov%d.yml' % j,)] = G.doc([], [], ('m', [(S('m'), ('m', [(S('~' + k), S('o%d%s' % (j, k))) for k in ov])),
                                                             (S('n'), M(('inner', ('m', [(S('~' + k), I(j)) for k in ov[:3]])))),
                                                             (S('trace'), L(S('ov%d' % j)))]))
    names = ['base'] + ['ov%d' % j for j in range(3) if ('ov%d.yml' % j,) in inv.classes]
    for j in range(rng.randint(2, 4)):
        inv.nodes[('%s%d.yml' % (rng.choice('abz'), j),)] = G.doc(names, [], ('m', [(S('emb'), S('m=${m}')), (S('trace'), L(S('NODE')))]))
    inv.universe.update(names)
    return inv, set()


def badref_inv(rng):
    """Several nodes share a class that holds a reference which does not parse: each of them fails, every
    time it is rendered, whatever was rendered before; the other nodes render."""
    inv = G.Inv()
    bad = rng.choice(['${unclosed', 'x-${a:${b}', '${}', 'pre ${site:name'])
    inv.classes[('common.yml',)] = G.doc([], ['capp'], ('m', [(S('motd'), S(bad)), (S('trace'), L(S('common')))]))
    inv.classes[('base.yml',)] = G.doc([], ['bapp'], ('m', [(S('ok'), S('${_reclass_:name:short}')), (S('trace'), L(S('base')))]))
    failing = set()
    for j in range(rng.randint(3, 6)):
        name = '%s%d' % (rng.choice('abz'), j)
        if rng.random() < 0.5 or (j == 0):
            inv.nodes[(name + '.yml',)] = G.doc(['base', 'common'], [], ('m', [(S('trace'), L(S('NODE')))]))
            failing.add(name)
        elif rng.random() < 0.3:
            inv.nodes[(name + '.yml',)] = G.doc(['base'], [], ('m', [(S('own'), S(bad)), (S('trace'), L(S('NODE')))]))
            failing.add(name)
        else:
            inv.nodes[(name + '.yml',)] = G.doc(['base'], [], ('m', [(S('trace'), L(S('NODE')))]))
    inv.universe.update(['common', 'base'])
    return inv, failing


def deep_chain_inv(rng):
    """Many nodes, each resolving long (acyclic) reference chains many times: the depth a resolution has reached
    belongs to that resolution alone, however many others are in progress on other threads."""
    inv = G.Inv()
    ln = rng.randint(36, 56)
    chain = [(S('l%d' % j), S('${l%d}' % (j + 1))) for j in range(ln)] + [(S('l%d' % ln), rng.choice([I(1), S('end'), L(I(1), I(2))]))]
    inv.classes[('chain.yml',)] = G.doc([], ['capp'], ('m', chain + [(S('trace'), L(S('chain')))]))
    for j in range(rng.randint(24, 40)):
        ps = [(S('p%d' % q), S(rng.choice(['${l0}', '${l3}', 'x-${l1}']))) for q in range(rng.randint(10, 24))]
        inv.nodes[('%s%02d.yml' % (rng.choice('abz'), j),)] = G.doc(['chain'], [], ('m', ps + [(S('trace'), L(S('NODE')))]))
    inv.universe.add('chain')
    return inv, set()


def run(tier, rng, C):
    n = 36 if tier == 'quick' else 600
    threads = [1, 2, 3, 4, 8, 16]
    base_cases, lines_all, lines_nodes = [], [], []
    for i in range(n):
        if i % 12 == 7:
            inv, failing = deep_chain_inv(rng)
        elif i % 5 == 4:
            inv, failing = symlink_inv(rng)
        elif i % 5 == 2:
            inv, failing = selector_inv(rng)
        elif i % 6 == 1:
            inv, failing = badref_inv(rng)
        elif i % 6 == 3:
            inv, failing = override_inv(rng)
        else:
            inv, failing = P13.multi_node_inv(rng, fail=0.0 if i % 4 else 0.2)
        if i % 7 == 3 and not failing:
            # a long list whose elements are references: element order must not depend on workers
            nbig = rng.choice([256, 300, 700])
            big = ('l', [S('${px}-%d' % j) for j in range(nbig)])
            first = sorted(inv.nodes)[0]
            d = inv.nodes[first]
            inv.nodes[first] = ('m', [(k, (('m', v[1] + [(S('px'), S('p')), (S('big'), big)]) if k == S('parameters') else v)) for k, v in d[1]])
        cid = C.case_id('t', i)
        base_cases.append({'id': cid, 'line': G.inv_line(cid, inv, 'all'), 'show': G.show_inv(inv, 'all'), 'nontrivial': True,
                           'inv': inv, 'failing': failing})
    # reference: the model's single render (standard differential run, default pool)
    res = C.standard_run(base_cases, '', key_fn=lambda c, m, i, r: 'model-impl-differ')
    # per-node renders in shuffled order and repeated, and whole-inventory renders under pools of different sizes
    fails = res['failures']
    runs = {}
    evals = len(base_cases)
    for th in threads:
        for rep in range(2 if tier == 'quick' else 4):
            out = C.run_sharded(C.HARNESS, [c['line'] for c in base_cases], shards=4, env={'RAYON_NUM_THREADS': str(th)})
            runs[(th, rep)] = out
            evals += len(base_cases)
    for c in base_cases:
        ref = runs[(1, 0)].get(c['id'])
        for key, out in runs.items():
            o = out.get(c['id'])
            same = (o == ref)
            if not same and c['failing'] and obs_kind(o or '') == 'err' and obs_kind(ref or '') == 'err':
                same = True       # which failing node is named may differ (C13)
            if not same:
                fails.append({'key': 'thread-count-dependent', 'severity': 'fail', 'show': c['show'], 'lines': [c['line']],
                              'reason': 'inventory rendered with %d worker threads (run %d) differs from the single-threaded render'
                                        % key, 'impl': C.describe(o or '')[:300], 'model': C.describe(ref or '')[:300],
                              'size': len(c['line'])})
                break
    # single nodes, shuffled and repeated, against the inventory entry
    node_lines, want = [], {}
    for c in base_cases:
        if c['failing']:
            continue
        ref = runs[(1, 0)].get(c['id'], '')
        if obs_kind(ref) != 'ok':
            continue
        entries = ref[3:].split(' | ')[1:]
        names = sorted(('.'.join(p)[:-4] if c['inv'].compose else p[-1][:-4]) for p in c['inv'].nodes)
        order = names + names
        rng.shuffle(order)
        for j, nm in enumerate(order):
            cid = '%s_%d' % (c['id'], j)
            node_lines.append(G.inv_line(cid, c['inv'], G.op_node(nm)))
            want[cid] = (c, nm, entries[names.index(nm)])
    out = C.run_sharded(C.HARNESS, node_lines)
    evals += len(node_lines)
    for cid, (c, nm, entry) in want.items():
        o = out.get(cid, '')
        if o != 'ok ' + entry:
            fails.append({'key': 'node-differs-from-inventory-entry', 'severity': 'fail', 'show': c['show'], 'lines': [c['line']],
                          'reason': 'render_node(%s) differs from the node\'s entry in the full inventory' % nm,
                          'impl': C.describe(o)[:300], 'model': entry[:300], 'size': len(c['line'])})
    # sequences of render calls on ONE instance (nodes in shuffled order, repeated, the whole
    # inventory in between): every call returns what a fresh instance returns for that node
    seq_lines, seq_want = [], {}
    for c in base_cases:
        if c['failing']:
            continue
        ref = runs[(1, 0)].get(c['id'], '')
        if obs_kind(ref) != 'ok':
            continue
        entries = ref[3:].split(' | ')[1:]
        names = sorted(('.'.join(p)[:-4] if c['inv'].compose else p[-1][:-4]) for p in c['inv'].nodes)
        for rep in range(2):
            order = names + names
            rng.shuffle(order)
            order.insert(rng.randint(1, len(order)), '*')
            cid = '%s_q%d' % (c['id'], rep)
            seq_lines.append(G.inv_line(cid, c['inv'], 'seq ' + G.strs(order)))
            seq_want[cid] = (c, order, ['inv-ok' if nm == '*' else 'ok ' + entries[names.index(nm)] for nm in order])
    out = C.run_sharded(C.HARNESS, seq_lines)
    evals += len(seq_lines)
    for cid, (c, order, exp) in seq_want.items():
        o = out.get(cid, '')
        got = o[4:].split(' ;; ') if o.startswith('seq ') else [o]
        if got != exp:
            j = next((k for k in range(min(len(got), len(exp))) if got[k] != exp[k]), 0)
            fails.append({'key': 'render-depends-on-earlier-calls', 'severity': 'fail', 'show': c['show'] + ' calls: ' + ' '.join(order),
                          'lines': [seq_lines[list(seq_want).index(cid)]],
                          'reason': 'call %d (%s) of the sequence %s on one instance differs from the render of that node on a fresh instance'
                                    % (j, order[j] if j < len(order) else '?', order),
                          'impl': C.describe(got[j] if j < len(got) else o)[:300], 'model': C.describe(exp[j])[:300] if j < len(exp) else '',
                          'size': len(c['line'])})
    # the same on inventories with failing nodes: a node that fails keeps failing (same error) however often and
    # after whatever other calls it is rendered, a node that renders keeps rendering to the same value
    fseq_lines, fseq_want = [], {}
    for c in base_cases:
        if not c['failing']:
            continue
        names = sorted(('.'.join(p)[:-4] if c['inv'].compose else p[-1][:-4]) for p in c['inv'].nodes)
        for rep in range(2):
            order = names + names + [rng.choice(sorted(c['failing']))]
            rng.shuffle(order)
            order.insert(rng.randint(1, len(order)), '*')
            cid = '%s_f%d' % (c['id'], rep)
            fseq_lines.append(G.inv_line(cid, c['inv'], 'seq ' + G.strs(order)))
            fseq_want[cid] = (c, order)
    out = C.run_sharded(C.HARNESS, fseq_lines)
    evals += len(fseq_lines)
    for cid, (c, order) in fseq_want.items():
        o = out.get(cid, '')
        got = o[4:].split(' ;; ') if o.startswith('seq ') else []
        bad = None
        if len(got) != len(order):
            bad = 'the sequence of calls did not complete: ' + C.describe(o)[:200]
        else:
            first = {}
            for j, (nm, g) in enumerate(zip(order, got)):
                if nm == '*':
                    if not g.startswith('inv-err'):
                        bad = 'call %d: the inventory with failing nodes %s rendered' % (j, sorted(c['failing']))
                elif (nm in c['failing']) != (obs_kind(g) == 'err'):
                    bad = 'call %d: node %s %s' % (j, nm, 'fails on a fresh instance but rendered here' if nm in c['failing']
                                                   else 'renders on a fresh instance but failed here: ' + C.describe(g)[:200])
                elif first.setdefault(nm, g) != g:
                    bad = 'call %d: node %s gives a different result than at its first call' % (j, nm)
                if bad:
                    break
        if bad:
            fails.append({'key': 'render-depends-on-earlier-calls', 'severity': 'fail', 'show': c['show'] + ' calls: ' + ' '.join(order),
                          'lines': [fseq_lines[list(fseq_want).index(cid)]], 'reason': bad, 'impl': C.describe(o)[:300],
                          'size': len(c['line'])})
    # concurrent use of ONE instance: a thread keeps rendering the whole inventory while the nodes that render are
    # rendered again and again on the same instance -- every render equals the node's first one (inventories with
    # failing nodes included: what another thread's failing render does must not show in this thread's nodes)
    conc_lines, conc_cases = [], {}
    for c in base_cases:
        names = sorted(('.'.join(p)[:-4] if c['inv'].compose else p[-1][:-4]) for p in c['inv'].nodes)
        good = [nm for nm in names if nm not in c['failing']]
        if len(c['inv'].nodes) > 12 or not good or not (c['failing'] or len(conc_lines) % 3 == 0):
            continue
        cid = '%s_c' % c['id']
        conc_lines.append(G.inv_line(cid, c['inv'], 'conc ' + G.strs(good[:4])))
        conc_cases[cid] = c
    out = C.run_sharded(C.HARNESS, conc_lines, shards=2)
    evals += len(conc_lines)
    for j, (cid, c) in enumerate(conc_cases.items()):
        o = out.get(cid, '')
        if o != 'conc same':
            fails.append({'key': 'render-depends-on-concurrent-calls', 'severity': 'fail', 'show': c['show'] + ' (rendered while another thread renders the inventory)',
                          'lines': [conc_lines[j]], 'reason': 'a node rendered while another thread renders the whole inventory on the same instance differs from its first render',
                          'impl': C.describe(o)[:300], 'size': len(c['line'])})
    res['failures'] = fails
    res['evaluations'] = evals
    res['rule'] = ('%d multi-node inventories: whole-inventory render in fresh processes with RAYON_NUM_THREADS in %s, %d times each, '
                   'compared with each other and with the model\'s single render; every node rendered alone twice in shuffled order '
                   'and compared with its inventory entry; two shuffled sequences of render calls (with a whole-inventory render in between) on one instance compared call by call with fresh-instance renders (on inventories with failing nodes: failing nodes keep failing, results repeat); nodes rendered repeatedly while another thread renders the whole inventory on the same instance; one inventory in five has a class file and a class directory reachable under two names through symlinks, with relative includes; one in five has nodes for which the same reference-bearing include entry resolves to an existing class or to a missing, ignored one; non-trivial = >= 2 nodes and >= 2 pool sizes (all)'
                   % (n, threads, 2 if tier == 'quick' else 4))
    res['extra']['static_audit'] = static_audit()
    return res


def static_audit():
    import subprocess
    p = subprocess.run("grep -rnE '\\b(static mut|static [A-Z_]+:|lazy_static|OnceCell|OnceLock|thread_local|RefCell|Mutex|RwLock|AtomicU|Cell<)' /repo/src "
                       "--include=*.rs | grep -v '_tests.rs' | grep -v verif_hooks | head -20", shell=True, stdout=subprocess.PIPE)
    lines = p.stdout.decode().strip().split('\n') if p.stdout.strip() else []
    return {'shared_mutable_state_candidates_in_repo_src': lines}

# C16: missing classes fail the node unless configured to be ignored.
import copy
import invgen as G
from common import *  # noqa

PATTERNS = [['.*'], ['^zz\\.'], ['^nope$', 'gone'], [], ['^d1\\.'], ['missing$'], ['^c[0-9]+$']]


def run(tier, rng, C):
    n = 300 if tier == 'quick' else 15000
    cases = []
    for i in range(n):
        inv, names, incl = G.include_graph_inv(rng, missing=0.0, conflicts=False, refs=0.3 if i % 2 else 0.15,
                                                 sel_relative=0.8 if i % 2 else 0.0)
        inv.ignore = rng.random() < 0.7
        inv.patterns = rng.choice(PATTERNS)
        node = sorted(inv.nodes)[0]
        nname = node[-1][:-4]
        # baseline (no missing include anywhere)
        a = C.case_id('b', i)
        cases.append({'id': a, 'line': G.inv_line(a, inv, G.op_node(nname)), 'show': G.show_inv(inv, 'node ' + nname),
                      'nontrivial': False, 'role': 'base'})
        # twin with one missing include inserted at a random position of the graph
        tw = G.Inv()
        tw.__dict__.update(copy.deepcopy(inv.__dict__))
        miss = rng.choice(['zz.missing', 'nope', 'd1.gone'])
        if rng.random() < 0.25 and (nname + '.yml',) not in tw.classes:
            miss = nname               # a missing class named like a node of the inventory
            tw.universe.add(miss)
        elif rng.random() < 0.2:
            miss = rng.choice(['extra\n', 'opt\nional', 'zz.mis\nsing', 'tab\tbed', 'sp ace'])     # e.g. from a YAML block scalar entry
            tw.universe.add(miss)
        elif rng.random() < 0.1:
            miss = ''                  # the class with the empty name (classes/init.yml would define it)
            tw.universe.add(miss)
        holders = sorted(tw.classes) + [node]
        hs = rng.sample(holders, min(len(holders), rng.choice([1, 1, 2, 3])))   # the same missing class from several places
        if rng.random() < 0.4 and node not in hs:
            hs.append(node)
        h = hs[0]
        for hh in hs:
            files = tw.nodes if hh == node else tw.classes
            d = files[hh]
            es = []
            for k, v in d[1]:
                if k == ('s', 'classes'):
                    l = list(v[1])
                    l.insert(rng.randint(0, len(l)), S(miss))
                    if rng.random() < 0.2:
                        l.insert(rng.randint(0, len(l)), S(miss))
                    v = ('l', l)
                es.append((k, v))
            files[hh] = ('m', es)
        b = C.case_id('m', i)
        cases.append({'id': b, 'line': G.inv_line(b, tw, G.op_node(nname)), 'show': G.show_inv(tw, 'node ' + nname),
                      'nontrivial': True, 'role': 'missing', 'twin': a, 'miss': miss, 'ignored': tw.ignore and miss in tw.matches(),
                      'holder_is_node': node in hs})
        # baseline under the plain configuration: existing classes are never skipped
        pl = G.Inv()
        pl.__dict__.update(copy.deepcopy(inv.__dict__))
        pl.ignore, pl.patterns = False, ['.*']
        p = C.case_id('p', i)
        cases.append({'id': p, 'line': G.inv_line(p, pl, G.op_node(nname)), 'show': G.show_inv(pl, 'node ' + nname),
                      'nontrivial': False, 'role': 'plain', 'twin': a})

    # an include entry with a reference, spelled identically in two classes: the first time it
    # resolves to a missing (ignored or not) class, the second time to an existing one (or the
    # other way round); ignoring the first must not make the second disappear
    for i in range(60 if tier == 'quick' else 2000):
        inv = G.Inv()
        inv.ignore = rng.random() < 0.8
        inv.patterns = rng.choice([['.*'], ['^env\\.'], ['^nope$'], []])
        first_missing = rng.random() < 0.7
        names1, names2 = ('env.dev', 'env.prod') if first_missing else ('env.prod', 'env.dev')
        entry = rng.choice(['env.${env}', '${full}', '.${rel}'])
        v1, v2 = {'env.${env}': ('dev', 'prod'), '${full}': ('env.dev', 'env.prod'), '.${rel}': ('env.dev', 'env.prod')}[entry]
        if not first_missing:
            v1, v2 = v2, v1
        key = {'env.${env}': 'env', '${full}': 'full', '.${rel}': 'rel'}[entry]
        inv.classes[('defaults.yml',)] = G.doc([], [], ('m', [(S(key), S(v1)), (S('trace'), L(S('defaults')))]))
        inv.classes[('override.yml',)] = G.doc([], [], ('m', [(S(key), S(v2)), (S('trace'), L(S('override')))]))
        inv.classes[('first.yml',)] = G.doc([entry], ['fa'], ('m', [(S('trace'), L(S('first')))]))
        inv.classes[('second.yml',)] = G.doc([entry] + ([entry] if rng.random() < 0.3 else []), ['sa'], ('m', [(S('trace'), L(S('second')))]))
        inv.classes[('env', 'prod.yml')] = G.doc([], ['prodapp'], ('m', [(S('marker'), S('from-env-prod')), (S('trace'), L(S('env.prod')))]))
        order = ['defaults', 'first', 'override', 'second']
        if rng.random() < 0.3:
            order = ['defaults', 'first', 'second', 'override', 'second']
        inv.nodes[('n1.yml',)] = G.doc(order + ([entry] if rng.random() < 0.3 else []), [], ('m', [(S('trace'), L(S('NODE')))]))
        inv.universe.update(['env.dev', 'env.prod', 'defaults', 'first', 'second', 'override'])
        cid = C.case_id('r', i)
        cases.append({'id': cid, 'line': G.inv_line(cid, inv, G.op_node('n1')), 'show': G.show_inv(inv, 'node n1'),
                      'nontrivial': True, 'role': 'base'})

    # an include entry whose reference renders to a RELATIVE name of an existing class, under settings whose
    # patterns match the relative spelling: the class exists, so it is merged whatever the settings say
    for i in range(60 if tier == 'quick' else 2000):
        inv = G.Inv()
        inv.ignore = rng.random() < 0.85
        inv.patterns = rng.choice([['.*'], ['^\\.'], ['b$'], ['^\\.+b$', 'nope']])
        d = rng.choice([('x',), ('x', 'y'), ()])
        rel = rng.choice(['.b', '.b', '..b'] if len(d) == 2 else ['.b'])
        tgt = d[:len(d) - (len(rel) - 2)] + ('b.yml',)
        inv.classes[('defs.yml',)] = G.doc([], [], ('m', [(S('sibling'), S(rel)), (S('trace'), L(S('defs')))]))
        inv.classes[d + ('a.yml',)] = G.doc(['${sibling}'], ['aa'], ('m', [(S('trace'), L(S('a')))]))
        inv.classes[tgt] = G.doc([], ['ba'], ('m', [(S('from_b'), S('b')), (S('trace'), L(S('b')))]))
        inv.nodes[('n1.yml',)] = G.doc(['defs', '.'.join(d + ('a',))] + (['${sibling}'] if rng.random() < 0.3 else []), [],
                                       ('m', [(S('trace'), L(S('NODE')))]))
        inv.universe.update(['defs', 'b', 'x.b', 'x.y.b', 'x.a', 'x.y.a', 'a', '.b', '..b'])
        cid = C.case_id('e', i)
        cases.append({'id': cid, 'line': G.inv_line(cid, inv, G.op_node('n1')), 'show': G.show_inv(inv, 'node n1'),
                      'nontrivial': True, 'role': 'base'})

    # an existing class whose document cannot be loaded is an error under every setting, never skipped
    for i in range(40 if tier == 'quick' else 1500):
        inv = G.Inv()
        inv.ignore = rng.random() < 0.8
        inv.patterns = rng.choice([['.*'], ['^bro'], ['^nope$']])
        inv.classes[('good.yml',)] = G.doc([], ['g'], ('m', [(S('trace'), L(S('good')))]))
        inv.classes[('broken.yml',)] = rng.choice([('m', [(S('parameters'), L(M(('a', I(1)))))]), ('m', [(S('classes'), M(('a', I(1))))]),
                                                   L(I(1)), ('raw', 'parameters: [unclosed'), ('m', [(S('parameters'), M(('=a', I(1)), ('a', I(2))))])])
        inv.classes[('mid.yml',)] = G.doc(['broken'], [], ('m', [(S('trace'), L(S('mid')))]))
        inv.nodes[('n1.yml',)] = G.doc(rng.choice([['good', 'broken', 'missing'], ['good', 'mid'], ['missing', 'broken']]), [], ('m', []))
        inv.universe.update(['good', 'broken', 'mid', 'missing'])
        cid = C.case_id('u', i)
        cases.append({'id': cid, 'line': G.inv_line(cid, inv, G.op_node('n1')), 'show': G.show_inv(inv, 'node n1'),
                      'nontrivial': True, 'role': 'base'})

    def split_obs(o):
        """ok <meta> A <apps> C <classes> P <params> -> (apps, classes, params) text"""
        body = o.split(' A ', 1)[1]
        apps, rest = body.split(' C ', 1)
        classes, params = rest.split(' P ', 1)
        return apps, classes, params

    def oracle(cases, mobs, iobs):
        fails = []
        for c in cases:
            if c['role'] == 'base':
                continue
            o, ob = iobs.get(c['id'], ''), iobs.get(c['twin'], '')
            bad = None
            if c['role'] == 'plain':
                if o != ob:
                    bad = 'ignore settings change the render of an inventory without missing classes'
            elif obs_kind(ob) == 'ok':
                if c['ignored']:
                    if o == ob:
                        pass          # the class holding the missing include is not reached from this node
                    elif obs_kind(o) != 'ok':
                        bad = 'ignored missing class %s still fails the node: %s' % (c['miss'], C.describe(o)[:200])
                    else:
                        a1, c1, p1 = split_obs(o)
                        a0, c0, p0 = split_obs(ob)
                        if a1 != a0 or p1 != p0:
                            bad = 'ignored missing class changes parameters/applications'
                        else:
                            names1 = [unhx(t[1:]) for t in c1.split(' ')[1:]]
                            names0 = [unhx(t[1:]) for t in c0.split(' ')[1:]]
                            if [x for x in names1 if x != c['miss']] != names0 or c['miss'] not in names1:
                                bad = 'class list with ignored missing class: %s vs %s' % (names1, names0)
                else:
                    msg = unhx(o.split(' ')[1]) if obs_kind(o) == 'err' else ''
                    # the missing include may be unreachable from the node (holder class not included)
                    reached = True
                    if obs_kind(o) == 'ok':
                        # acceptable only when the class holding the include is not reached at all
                        reached = o != ob
                        if reached:
                            bad = 'missing class %s (not ignored) did not fail the node' % c['miss']
                    elif c['miss'] not in msg:
                        bad = 'error does not name the missing class %s: %r' % (c['miss'], msg[:200])
            if bad:
                fails.append({'key': 'missing-class-handling', 'severity': 'fail', 'show': c['show'], 'lines': [c['line']],
                              'reason': bad, 'model': C.describe(mobs.get(c['id'], '')), 'impl': C.describe(o), 'size': len(c['line'])})
        return fails
    rule = ('%d triples: a random include graph (half of them with include entries whose reference renders to a relative name of an existing class) under a random (ignore flag x pattern list) setting, its twin with one missing '
            'class inserted at a random position of a random class or of the node, and the same inventory under the plain '
            'setting; oracle: ignored -> identical parameters/applications and class list plus the name; not ignored -> error '
            'naming the class; settings never change an inventory without missing classes; non-trivial = the twin with the '
            'missing include' % n)
    return C.standard_run(cases, rule, key_fn=lambda c, m, i, r: 'model-impl-differ', extra_oracle=oracle)

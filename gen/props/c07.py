# C07: rendered parameters are plain, closed data and a fixed point.
import valgen as V
import props.merge_common as MC
from common import *  # noqa


def check_closed(v, path='', clean=True):
    """returns a problem description or None"""
    if v is None or v is True or v is False:
        return None
    t = v[0]
    if t == 'str':
        return 'unrendered String at %s: %r' % (path, v[1][:60])
    if t == 'vlist':
        return 'multi-layer artefact (ValueList) at %s' % path
    if t == 'seq':
        for i, x in enumerate(v[1]):
            p = check_closed(x, '%s[%d]' % (path, i), clean)
            if p:
                return p
    if t == 'map':
        for k, x, _ in v[1]:
            if clean and k and k is not True and k[0] == 'str' and k[1][:1] in ('~', '='):
                return 'key %r still carries its marker at %s' % (k[1], path)
            p = check_closed(x, '%s.%s' % (path, k[1] if k and k is not True and k[0] == 'str' else k), clean)
            if p:
                return p
    return None


def run(tier, rng, C):
    n = 3000 if tier == 'quick' else 90000
    cases = []
    for i in range(n):
        r = i % 4
        if r == 3:
            layers = V.deep_ref_layers(rng)
        elif r == 0:
            layers = V.ref_stack(rng, rng.randint(1, 4), rng.randint(1, 3), markers=0.15, p=0.3)
        elif r == 1:
            layers, _ = V.ranked_root(rng)
        else:
            layers = V.stack(rng, rng.randint(1, 4), rng.randint(1, 3), markers=0.2)
        cid = C.case_id('f', i)
        clean = all(MC.clean_layer(strip_refs(l)) for l in layers)
        cases.append({'id': cid, 'line': V.stack_line(cid, 'value2', layers), 'show': V.stack_show(layers),
                      'nontrivial': True, 'clean': clean})

    # keys that end up both overriding and constant (first written `~k` with nothing to override, later `=k`;
    # or the other way round), at depth 0-2: the rendered key carries no marker
    for i in range(60 if tier == 'quick' else 2000):
        ms = rng.choice([['~', '='], ['~', '=', ''], ['=', '~'], ['~', '~', '='], ['', '~', '='], ['~', '=', '~']])
        depth = rng.randint(0, 2)
        layers = []
        for j, mk in enumerate(ms):
            v = M((mk + 'foo', rng.choice([M(('x%d' % j, I(j))), L(I(j)), I(j), S('s%d' % j)])), ('sib', I(j)))
            for d in range(depth):
                v = M(('p%d' % d, v))
            layers.append(v)
        if rng.random() < 0.4:
            layers.append(M(('look', S('${%sfoo}' % ''.join('p%d:' % d for d in reversed(range(depth)))))))
        cid = C.case_id('k', i)
        cases.append({'id': cid, 'line': V.stack_line(cid, 'value2', layers), 'show': V.stack_show(layers), 'nontrivial': True, 'clean': True})
    # a key spelled plainly and again with two constant markers at the top level (`k` and `==k`): the second marker is
    # only consumed when the mapping is rebuilt, where the two spellings meet -- the result is still plain data
    for i in range(40 if tier == 'quick' else 1200):
        mk = rng.choice(['==', '==', '=~', '~=', '==='])
        a, b = rng.choice([(M(('x', I(1))), M(('y', I(2)))), (L(I(1)), L(I(2))), (I(1), I(2))])
        es = [(S('limits'), a), (S(mk + 'limits'), b), (S('other'), S('o'))]
        if rng.random() < 0.3:
            es = [es[1], es[0], es[2]]
        layers = [('m', es)] if rng.random() < 0.6 else [M(('limits', a)), ('m', [(S('=' + mk + 'limits'), b)])]
        if rng.random() < 0.3:
            layers = [M(('top', l)) for l in layers]
        cid = C.case_id('d', i)
        cases.append({'id': cid, 'line': V.stack_line(cid, 'value2', layers), 'show': V.stack_show(layers), 'nontrivial': True, 'clean': False})
    # strings that mix inventory-query brackets $[ ... ] (plain text for this implementation), braces and
    # resolvable references: every reference is rendered wherever it stands
    pcs = ['$[', ']', ' ${a} ', '${b:c}', 'txt ', '$[x]', '\\$[', '{', '}', ' if x == ${a}', '$', '${a${d}}', '${', '${}', '${a']
    for i in range(120 if tier == 'quick' else 4000):
        s = ''.join(rng.choice(pcs) for _ in range(rng.randint(2, 7)))
        if i % 3 == 0:
            s = '$[ ' + s + ' ${a} ]'
        holder = rng.choice([S(s), ('l', [S(s), S('${a}')]), M(('q', S(s)))])
        layers = [('m', [(S('a'), S('A')), (S('b'), M(('c', I(3)))), (S('d'), S('')), (S('aA'), S('nested')), (S('s'), holder)])]
        cid = C.case_id('q', i)
        cases.append({'id': cid, 'line': V.stack_line(cid, 'value2', layers), 'show': V.stack_show(layers), 'nontrivial': True, 'clean': True,
                      'noref': True})

    def unresolved(v):
        if v is None or v is True or v is False:
            return False
        if v[0] == 'lit':
            return '${a' in v[1] or '${b' in v[1]
        if v[0] == 'seq':
            return any(unresolved(x) for x in v[1])
        if v[0] == 'map':
            return any(unresolved(x) for _, x, _ in v[1])
        return False

    def oracle(cases, mobs, iobs):
        fails = []
        for c in cases:
            o = iobs.get(c['id'], '')
            if c.get('noref') and obs_kind(o) == 'ok' and unresolved(C.parse_canon(o[3:].split(' || ', 1)[0].split(' '))[0]):
                fails.append({'key': 'reference-left-unresolved', 'severity': 'fail', 'show': c['show'], 'lines': [c['line']],
                              'reason': 'an unescaped reference is still present in the rendered text', 'impl': C.describe(o), 'size': len(c['line'])})
                continue
            if obs_kind(o) != 'ok':
                continue
            first, second = o[3:].split(' || ', 1)
            v1 = C.parse_canon(first.split(' '))[0]
            prob = check_closed(v1, '', c['clean'])
            if prob is None and second != first:
                prob = 'rendering the rendered parameters again changes them: ' + C.describe(second)[:200]
            if prob:
                # (keys written with four or more leading markers lose one marker per pass over the mapping -- conversion,
                #  merge, interpolation, flattening -- and can meet their plain spelling after the last flattening: F19)
                key = 'closed:key-with-four-or-more-markers' if max_markers(c) >= 4 else 'not-closed-or-not-fixed-point'
                fails.append({'key': key, 'severity': 'fail', 'show': c['show'], 'lines': [c['line']],
                              'reason': prob, 'impl': C.describe(o), 'size': len(c['line'])})
        return fails
    rule = ('%d stacks (reference-bearing random stacks, acyclic reference graphs, plain marked stacks) rendered and then '
            'rendered again, plus keys that become both overriding and constant over several layers, plus strings mixing $[ ... ] brackets, braces and resolvable references; oracle on the implementation output: no String / ValueList anywhere, no key with a leading marker '
            '(clean-key inputs), second render identical; non-trivial = all (counted after de-duplication); successful renders: see histogram' % n)
    res = C.standard_run(cases, rule, key_fn=lambda c, m, i, r: 'model-impl-differ', extra_oracle=oracle)
    return res


def max_markers(c):
    """largest number of leading = / ~ characters of a string key in the case's input"""
    import re as _re
    best = 0
    for tok in c['line'].split(' '):
        if tok.startswith('S'):
            try:
                t = unhx(tok[1:])
            except Exception:
                continue
            m = _re.match(r'[=~]+', t)
            if m:
                best = max(best, len(m.group(0)))
    return best


def strip_refs(a):
    t = a[0]
    if t == 's' and ('${' in a[1] or '$[' in a[1]):
        return S('x')
    if t == 'm':
        return ('m', [(k, strip_refs(v)) for k, v in a[1]])
    if t == 'l':
        return ('l', [strip_refs(x) for x in a[1]])
    return a

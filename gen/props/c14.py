# C14: files map to class and node names one-to-one, collisions rejected.
import invgen as G
from common import *  # noqa

FILES = ['a.yml', 'b.yaml', 'a.b.yml', 'init.yml', 'init.yaml', '.hid.yml', 'x.txt', 'noext', 'c.yml', 'a.yaml', '.yml', 'z.YML', 'w.yml.bak', '.b.yml',
         'reinit.yml', 'xinit.yaml', 'init.x.yml', 'initx.yml', '_init.yml', 'init', 'a.init.yml', 'yml', 'd.yml.yml', 'e..yml', '_u.yml', 'a b.yml']
DIRS = ['d', '_u', 'e.f', 'a', 'd2', 'init', 'xinit', 'u_', '.h']


def gen_tree(rng, maxdepth=3, dir_yml=0.0):
    """returns dict path-> 'file' | 'dir'"""
    tree = {}

    def fill(prefix, depth):
        for f in rng.sample(FILES, rng.randint(0, 4)):
            tree[prefix + (f,)] = 'file'
        if depth < maxdepth:
            for d in rng.sample(DIRS, rng.randint(0, 2)):
                tree[prefix + (d,)] = 'dir'
                fill(prefix + (d,), depth + 1)
        if dir_yml and rng.random() < dir_yml:
            tree[prefix + ('k.yml',)] = 'dir'
            if rng.random() < 0.5:
                tree[prefix + ('k.yml', 'inner.yml')] = 'file'
    fill((), 0)
    return tree


def is_yaml(name):
    if name == '..':
        return False
    i = name.rfind('.')
    return i > 0 and name[i + 1:] in ('yml', 'yaml')


def spec_names(tree, kind, compose):
    """Python reading of the property: {name: path}, or ('collision', name)"""
    out = {}
    for p in sorted(tree):
        if tree[p] != 'file' or not is_yaml(p[-1]):
            continue
        stem = p[-1][:p[-1].rfind('.')]
        segs = list(p[:-1]) + [stem]
        if stem == 'init':
            segs = list(p[:-1])
        if kind == 'node' and (not compose or (segs and segs[0].startswith('_'))):
            name = segs[-1] if segs else ''
        else:
            name = '.'.join(segs)
        if name in out:
            return ('collision', name, '/'.join(out[name]), '/'.join(p))
        out[name] = p
    return out


def to_files(tree, marker_kind):
    files = {}
    for p, k in tree.items():
        if k == 'dir':
            if is_yaml(p[-1]):
                files[p] = 'X'
            continue
        if is_yaml(p[-1]):
            files[p] = G.doc([], [], ('m', [(S('marker'), S(marker_kind + ':' + '/'.join(p)))]))
        else:
            files[p] = ('raw', 'not: [yaml')
    # directories without files must exist too
    for p, k in tree.items():
        if k == 'dir' and not any(q[:len(p)] == p and q != p for q in tree):
            files[p + ('.keep',)] = ('raw', '')
    return files


def run(tier, rng, C):
    n = 250 if tier == 'quick' else 10000
    cases, meta = [], {}
    for i in range(n):
        inv = G.Inv()
        inv.compose = rng.random() < 0.5
        ctree = gen_tree(rng, dir_yml=0.15)
        ntree = gen_tree(rng, maxdepth=2, dir_yml=0.1)
        if rng.random() < 0.5:
            # avoid node collisions in half of the cases so that rendering is exercised
            seen = set()
            for p in sorted(ntree):
                if ntree[p] == 'file' and is_yaml(p[-1]):
                    s = spec_names({p: 'file'}, 'node', inv.compose)
                    nm = list(s)[0]
                    if nm in seen:
                        del ntree[p]
                    seen.add(nm)
        inv.classes = to_files(ctree, 'class')
        inv.nodes = to_files(ntree, 'node')
        cid = C.case_id('w', i)
        cases.append({'id': cid, 'line': G.inv_line(cid, inv, 'names'), 'show': G.show_inv(inv, 'names'), 'nontrivial': True,
                      'kind': 'names'})
        meta[cid] = (ctree, ntree, inv.compose)
        # include every discovered class name not starting with a dot from a probe node and read its marker
        sc = spec_names(ctree, 'class', True)
        sn = spec_names(ntree, 'node', inv.compose)
        if isinstance(sc, dict) and isinstance(sn, dict) and sc:
            probe = G.Inv()
            probe.__dict__.update(inv.__dict__)
            probe.nodes = dict(inv.nodes)
            cname = rng.choice(sorted(sc))
            if cname and not cname.startswith('.') and 'probe' not in sn:
                probe.nodes[('probe.yml',)] = G.doc([cname], [], ('m', []))
                pid = C.case_id('p', i)
                cases.append({'id': pid, 'line': G.inv_line(pid, probe, G.op_node('probe')), 'show': G.show_inv(probe, 'node probe'),
                              'nontrivial': True, 'kind': 'probe', 'want': 'class:' + '/'.join(sc[cname]), 'cname': cname})

    # symlinked directories are followed: below classes/ and nodes/ a link to a directory contributes the files of
    # its target under the link's own name (also when the link is named like a YAML file)
    for i in range(40 if tier == 'quick' else 1200):
        inv = G.Inv()
        inv.compose = rng.random() < 0.6
        real = {('real', 'c.yml'): 'file', ('real', 'sub', 'd.yaml'): 'file', ('real', 'sub', 'init.yml'): 'file', ('top.yml',): 'file'}
        if rng.random() < 0.5:
            real[('real', 'e.f.yml')] = 'file'
        lname = rng.choice(['lnk', 'lnk', '_l', 'l.k', 'conf.yml'])
        ctree = dict(real)
        files = to_files(real, 'class')
        files[(lname,)] = ('link', 'real')
        for pth in sorted(real):
            if pth[0] == 'real':
                q = (lname,) + pth[1:]
                ctree[q] = 'file'
                files[q] = ('virt', files[pth])
        inv.classes = files
        nreal = {('grp', 'n1.yml'): 'file', ('grp', 'deep', 'n2.yml'): 'file', ('solo.yml',): 'file'}
        ntree = dict(nreal)
        nfiles = to_files(nreal, 'node')
        if inv.compose or rng.random() < 0.3:
            # (without composition the linked copies carry the same basenames: a collision, reported as such)
            nl = rng.choice(['g2', '_g', 'g.2'])
            nfiles[(nl,)] = ('link', 'grp')
            for pth in sorted(nreal):
                if pth[0] == 'grp':
                    q = (nl,) + pth[1:]
                    ntree[q] = 'file'
                    nfiles[q] = ('virt', nfiles[pth])
        inv.nodes = nfiles
        cid = C.case_id('s', i)
        cases.append({'id': cid, 'line': G.inv_line(cid, inv, 'names'), 'show': G.show_inv(inv, 'names'), 'nontrivial': True, 'kind': 'names'})
        meta[cid] = (ctree, ntree, inv.compose)
        sc = spec_names(ctree, 'class', True)
        sn = spec_names(ntree, 'node', inv.compose)
        if isinstance(sc, dict) and isinstance(sn, dict):
            probe = G.Inv()
            probe.__dict__.update(inv.__dict__)
            probe.nodes = dict(inv.nodes)
            cname = rng.choice(sorted(k for k in sc if k.split('.')[0] == lname.split('.')[0] or k.startswith(lname)) or sorted(sc))
            if cname and not cname.startswith('.') and 'probe' not in sn:
                probe.nodes[('probe.yml',)] = G.doc([cname], [], ('m', []))
                pid = C.case_id('q', i)
                tgt = sc[cname]
                want = ('real',) + tgt[1:] if tgt[0] == lname else tgt
                cases.append({'id': pid, 'line': G.inv_line(pid, probe, G.op_node('probe')), 'show': G.show_inv(probe, 'node probe'),
                              'nontrivial': True, 'kind': 'probe', 'want': 'class:' + '/'.join(want), 'cname': cname})

    def oracle(cases, mobs, iobs):
        fails = []
        for c in cases:
            o = iobs.get(c['id'], '')
            bad = None
            if c['kind'] == 'probe':
                if obs_kind(o) == 'ok':
                    params = C.parse_canon(o.split(' P ', 1)[1].split(' '))[0]
                    mk = [v for k, v, _ in params[1] if k == ('str', 'marker')]
                    if not mk or mk[0] != ('lit', c['want']):
                        bad = 'including class %r loaded %r, not the file %s' % (c['cname'], mk, c['want'])
                else:
                    bad = 'including the discovered class %r fails: %s' % (c['cname'], C.describe(o)[:200])
            else:
                ctree, ntree, compose = meta[c['id']]
                sn = spec_names(ntree, 'node', compose)
                sc = spec_names(ctree, 'class', True)
                if isinstance(sn, tuple) or isinstance(sc, tuple):
                    col = sn if isinstance(sn, tuple) else sc
                    msg = unhx(o.split(' ')[1]) if obs_kind(o) == 'err' else ''
                    if obs_kind(o) != 'err':
                        bad = 'two files define %r but construction succeeded' % col[1]
                    else:
                        # the error names two files that yield one and the same name (whatever its wording)
                        found = None
                        for kind, tree, root, comp in (('node', ntree, '/nodes/', compose), ('class', ctree, '/classes/', True)):
                            files = [q for q in sorted(tree) if tree[q] == 'file' and is_yaml(q[-1])]
                            named = [q for q in files if (root + '/'.join(q)) in msg]
                            for x in named:
                                for y in named:
                                    if x < y and list(spec_names({x: 'file'}, kind, comp)) == list(spec_names({y: 'file'}, kind, comp)):
                                        nm = list(spec_names({x: 'file'}, kind, comp))[0]
                                        if nm == '' or nm in msg:
                                            found = (x, y)
                        if not found:
                            bad = 'the error does not name two files that yield the same name: %r' % msg[:300]
                else:
                    if obs_kind(o) != 'ok':
                        bad = 'construction fails without a name collision: %s' % C.describe(o)[:300]
                    else:
                        body = o[3:]
                        npart, cpart = body.split(' C', 1)

                        def parse_ix(t):
                            toks = t.split(' ')[1:]
                            d, j = {}, 0
                            while j < len(toks):
                                k = unhx(toks[j][1:])
                                cnt = int(toks[j + 1])
                                d[k] = [unhx(x[1:]) for x in toks[j + 2:j + 2 + cnt]]
                                j += 2 + cnt
                            return d
                        gn, gc = parse_ix(npart), parse_ix(cpart)
                        wn = {k: ['/'.join(v)] for k, v in sn.items()}
                        wc = {k: ['/'.join(v)] for k, v in sc.items()}
                        if gn != wn:
                            bad = 'discovered nodes %s, the property gives %s' % (gn, wn)
                        elif gc != wc:
                            bad = 'discovered classes %s, the property gives %s' % (gc, wc)
            if bad:
                key = 'discovery'
                if 'k.yml' in bad or "k'" in bad:
                    key = 'discovery:directory-with-yaml-extension'
                fails.append({'key': key, 'severity': 'fail', 'show': c['show'], 'lines': [c['line']], 'reason': bad,
                              'model': C.describe(mobs.get(c['id'], '')), 'impl': C.describe(o), 'size': len(c['line'])})
        return fails
    rule = ('%d pairs of random directory trees (depth <= 3; file names with dots, both extensions, init files, hidden files, '
            'stray files, upper-case extension; directories with dots, underscore prefix, and directories named *.yml) under both '
            'settings of node-name composition; observations: discovered node/class maps, collision errors, and a probe node '
            'including a discovered class and reading the marker parameter of the file; plus trees with symlinked directories below classes/ and nodes/; oracle = Python reading of the naming rule' % n)
    return C.standard_run(cases, rule, key_fn=lambda c, m, i, r: 'model-impl-differ', extra_oracle=oracle)

# C17: application lists.  Exhaustive small scope + random, through the list hook.
import itertools
import invgen as G
from common import S, unhx, obs_kind


def splits(seq, maxparts):
    """all ways to cut seq into 1..maxparts consecutive (possibly empty) lists"""
    n = len(seq)
    out = []
    for parts in range(1, maxparts + 1):
        for cuts in itertools.combinations_with_replacement(range(n + 1), parts - 1):
            b = (0,) + cuts + (n,)
            out.append([list(seq[b[i]:b[i + 1]]) for i in range(parts)])
    return out


def line(C, cid, kind, lists):
    return '%s list %s %d %s' % (cid, kind, len(lists),
                                 ' '.join('%d %s' % (len(l), ' '.join('S' + C.hx(x) for x in l)) for l in lists))


def run(tier, rng, C):
    cases = []
    alphabet = ['a', 'b', '~a', '~b']
    maxlen = 5 if tier == 'quick' else 6
    n = 0
    seen = set()
    for L in range(0, maxlen + 1):
        for seq in itertools.product(alphabet, repeat=L):
            for sp in splits(seq, 3):
                key = repr(sp)
                if key in seen:
                    continue
                seen.add(key)
                cid = C.case_id('x', n)
                n += 1
                cases.append({'id': cid, 'line': line(C, cid, 'r', sp), 'show': 'removable ' + repr(sp),
                              'nontrivial': any(x.startswith('~') for x in seq)})
    rich = ['a', 'b', 'c', '~a', '~b', '~c', '~~a', '', '~', 'ab', '~ab', 'a~', 'é', '~é']
    nrand = 3000 if tier == 'quick' else 60000
    for _ in range(nrand):
        nl = rng.randint(1, 6)
        lists = [[rng.choice(rich) for _ in range(rng.randint(0, 7))] for _ in range(nl)]
        kind = 'r' if rng.random() < 0.8 else 'u'
        cid = C.case_id('r', n)
        n += 1
        cases.append({'id': cid, 'line': line(C, cid, kind, lists),
                      'show': ('removable ' if kind == 'r' else 'unique ') + repr(lists),
                      'nontrivial': any(x.startswith('~') for l in lists for x in l) or kind == 'u'})
    # long lists (16-30 entries) merged after shorter ones that leave negations remembered (and before later additions)
    for _ in range(300 if tier == 'quick' else 6000):
        pool = ['app%02d' % j for j in range(30)]
        first = [rng.choice(['~' + rng.choice(pool), rng.choice(pool)]) for _ in range(rng.randint(1, 4))]
        longl = rng.sample(pool, rng.randint(16, 30))
        if rng.random() < 0.3:
            longl.insert(rng.randint(0, len(longl)), '~' + rng.choice(pool))
        last = [rng.choice(pool + ['~' + x for x in pool[:5]]) for _ in range(rng.randint(0, 3))]
        lists = [first, longl, last] if rng.random() < 0.7 else [longl, first, longl[:17], last]
        cid = C.case_id('l', n)
        n += 1
        cases.append({'id': cid, 'line': line(C, cid, 'r', lists), 'show': 'removable ' + repr(lists)[:300], 'nontrivial': True})
    # end to end: nodes over include graphs whose classes and node carry application lists with negations; the
    # node's list is the replay, in the order in which the classes were merged (read off the rendered `trace`
    # parameter), of the classes' own lists, the node's own list last
    meta = {}
    for i in range(150 if tier == 'quick' else 5000):
        inv, names, incl = G.include_graph_inv(rng, cyclic=False, refs=0.2, conflicts=False, relative=0.2)
        # richer application lists
        for p in sorted(inv.classes):
            d = inv.classes[p]
            apps = [rng.choice(['a1', 'a2', 'a3', '~a1', '~a2', '~a3', 'a4']) for _ in range(rng.randint(0, 4))]
            inv.classes[p] = ('m', [(k, ('l', [S(a) for a in apps]) if k == S('applications') else v) for k, v in d[1]]
                              + ([] if any(k == S('applications') for k, _ in d[1]) else [(S('applications'), ('l', [S(a) for a in apps]))]))
        for np_ in sorted(inv.nodes):
            cid = C.case_id('w', n)
            n += 1
            name = np_[-1][:-4]
            cases.append({'id': cid, 'line': G.inv_line(cid, inv, G.op_node(name)), 'show': G.show_inv(inv, 'node ' + name),
                          'nontrivial': True})
            meta[cid] = (inv, np_)

    def r_append(items, negs, x):
        if x.startswith('~'):
            ng = x[1:]
            if ng in items:
                items.remove(ng)
            elif ng not in negs:
                negs.append(ng)
        elif x in negs:
            negs.remove(x)
        elif x not in items:
            items.append(x)

    def r_from(xs):
        items, negs = [], []
        for x in xs:
            r_append(items, negs, x)
        return items, negs

    def apps_of(doc):
        for k, v in doc[1]:
            if k == S('applications') and v[0] == 'l':
                return [x[1] for x in v[1]]
        return []

    def oracle(cases, mobs, iobs):
        fails = []
        for c in cases:
            if c['id'] not in meta:
                continue
            inv, np_ = meta[c['id']]
            o = iobs.get(c['id'], '')
            if obs_kind(o) != 'ok':
                continue
            toks = o.split(' ')
            ia = toks.index('A')
            na = int(toks[ia + 1])
            got = [unhx(x[1:]) for x in toks[ia + 2:ia + 2 + na]]
            params = C.parse_canon(o.split(' P ', 1)[1].split(' '))[0]
            tr = [x for kk, x, _ in params[1] if kk == ('str', 'trace')]
            order = [e[1] for e in tr[0][1]] if tr else []
            byname = {'.'.join(p[:-1] + (p[-1][:-4],)): d for p, d in inv.classes.items()}
            items, negs = [], []
            okay = True
            for nm in order:
                d = inv.nodes[np_] if nm == 'NODE' else byname.get(nm)
                if d is None:
                    okay = False
                    break
                oi, on = r_from(apps_of(d))
                for x in on:
                    r_append(items, negs, '~' + x)
                for x in oi:
                    r_append(items, negs, x)
            if okay and got != items:
                fails.append({'key': 'applications-not-in-merge-order', 'severity': 'fail', 'show': c['show'], 'lines': [c['line']],
                              'reason': 'applications %s; replaying the lists of the merged classes %s in merge order gives %s' % (got, order, items),
                              'model': C.describe(mobs.get(c['id'], ''))[:300], 'impl': C.describe(o)[:300], 'size': len(c['line'])})
        return fails
    rule = ('exhaustive: every sequence of length <= %d over {a,b,~a,~b} cut into <= 3 lists in every way, '
            'each list loaded with From<Vec<String>> and merged left to right (RemovableList through the hook); '
            'plus %d random cases over a richer alphabet (multi-byte, empty, double markers) incl. UniqueList; '
            'plus long lists (16-30 entries) merged over remembered negations; plus nodes over random include graphs whose classes carry application lists with negations (oracle: replay in merge order); '
            'non-trivial = contains a negation (or exercises UniqueList)' % (maxlen, nrand))
    return C.standard_run(cases, rule, key_fn=lambda c, m, i, r: 'list-state-differs', exhaustive=True, extra_oracle=oracle)

# C17: application lists.  Exhaustive small scope + random, through the list hook.
import itertools


def splits(seq, maxparts):
    """all ways to cut seq into 1..maxparts consecutive (possibly empty) lists"""
    n = len(seq)
    out = []
    for parts in range(1, maxparts + 1):
        for cuts in itertools.combinations_with_replacement(range(n + 1), parts - 1):
            b = (0,) + cuts + (n,)
            out.append([list(seq[b[i]:b[i + 1]]) for i in range(parts)])
    return out


def line(C, cid, kind, lists):
    return '%s list %s %d %s' % (cid, kind, len(lists),
                                 ' '.join('%d %s' % (len(l), ' '.join('S' + C.hx(x) for x in l)) for l in lists))


def run(tier, rng, C):
    cases = []
    alphabet = ['a', 'b', '~a', '~b']
    maxlen = 5 if tier == 'quick' else 6
    n = 0
    seen = set()
    for L in range(0, maxlen + 1):
        for seq in itertools.product(alphabet, repeat=L):
            for sp in splits(seq, 3):
                key = repr(sp)
                if key in seen:
                    continue
                seen.add(key)
                cid = C.case_id('x', n)
                n += 1
                cases.append({'id': cid, 'line': line(C, cid, 'r', sp), 'show': 'removable ' + repr(sp),
                              'nontrivial': any(x.startswith('~') for x in seq)})
    rich = ['a', 'b', 'c', '~a', '~b', '~c', '~~a', '', '~', 'ab', '~ab', 'a~', 'é', '~é']
    nrand = 3000 if tier == 'quick' else 60000
    for _ in range(nrand):
        nl = rng.randint(1, 6)
        lists = [[rng.choice(rich) for _ in range(rng.randint(0, 7))] for _ in range(nl)]
        kind = 'r' if rng.random() < 0.8 else 'u'
        cid = C.case_id('r', n)
        n += 1
        cases.append({'id': cid, 'line': line(C, cid, kind, lists),
                      'show': ('removable ' if kind == 'r' else 'unique ') + repr(lists),
                      'nontrivial': any(x.startswith('~') for l in lists for x in l) or kind == 'u'})
    rule = ('exhaustive: every sequence of length <= %d over {a,b,~a,~b} cut into <= 3 lists in every way, '
            'each list loaded with From<Vec<String>> and merged left to right (RemovableList through the hook); '
            'plus %d random cases over a richer alphabet (multi-byte, empty, double markers) incl. UniqueList; '
            'non-trivial = contains a negation (or exercises UniqueList)' % (maxlen, nrand))
    return C.standard_run(cases, rule, key_fn=lambda c, m, i, r: 'list-state-differs', exhaustive=True)

# C04: a reference used as a layer merges like the inline value (metamorphic twins).
import valgen as V
from common import *  # noqa


def layer_value(rng, depth):
    r = rng.random()
    if r < 0.45:
        ks = rng.sample(['x', 'y', 'z'], rng.randint(1, 3))
        es = []
        for k in ks:
            mk = rng.choice(['', '', '', '~', '='])
            es.append((S(mk + k), layer_value(rng, depth - 1) if depth > 0 and rng.random() < 0.5 else V.scalar(rng)))
        return ('m', es)
    if r < 0.7:
        return ('l', [V.scalar(rng) for _ in range(rng.randint(0, 2))])
    if r < 0.8:
        return N
    return V.scalar(rng)


def run(tier, rng, C):
    n = 2000 if tier == 'quick' else 60000
    cases = []
    for i in range(n):
        nl = rng.randint(2, 5)
        nest = rng.random() < 0.4
        vals = [layer_value(rng, 2) for _ in range(nl)]
        if rng.random() < 0.3:
            dd = rng.randint(2, 4)
            vals = [V.spine_map(rng, dd, j) for j in range(nl)]
        # make most stacks mergeable: same kind
        if rng.random() < 0.6:
            kind = rng.choice(['m', 'l'])
            vals = [v if v[0] == kind or v[0] == 'n' else (('m', [(S('x'), v)]) if kind == 'm' else ('l', [v])) for v in vals]
        same = {}
        if rng.random() < 0.3:
            # the same value (and, in the reference twin, textually the same reference) in adjacent layers
            j0 = rng.randrange(nl - 1)
            vals[j0 + 1] = vals[j0]
            same[j0 + 1] = j0
        subset = [j for j in range(nl) if rng.random() < 0.5] or [rng.randrange(nl)]
        for j1, j0 in same.items():
            if j0 in subset and j1 not in subset:
                subset.append(j1)
        inline, refd = [], []
        helpers = []
        selfref = rng.random() < 0.25
        for j, v in enumerate(vals):
            if selfref and j in subset and v[0] == 'm' and j not in same and j not in same.values() \
                    and not any(k[1].lstrip('~=') in ('base', 'own') for k, _ in v[1] if k[0] == 's'):
                # the referenced mapping refers to one of its own members by its full path (${hJ:base}): resolving
                # the member while hJ itself is being resolved is no loop
                v = ('m', v[1] + [(S('base'), L(I(j))), (S('own'), S('${h%d:base}' % j))])
                vals[j] = v
            tv_in = v
            if j in subset and j in same and same[j] in subset:
                tv_ref = S('${h%d}' % same[j])
            elif j in subset:
                tv_ref = S('${h%d}' % j)
                hv = v
                if rng.random() < 0.3 and v[0] != 'n':
                    # the referenced value is itself reached through another reference
                    helpers.append((S('g%d' % j), v))
                    hv = S('${g%d}' % j)
                helpers.append((S('h%d' % j), hv))
            else:
                tv_ref = v
            if nest:
                inline.append(('m', [(S('t'), ('m', [(S('n'), tv_in)]))]))
                refd.append(('m', [(S('t'), ('m', [(S('n'), tv_ref)]))]))
            else:
                inline.append(('m', [(S('t'), tv_in)]))
                refd.append(('m', [(S('t'), tv_ref)]))
        refd[0] = ('m', refd[0][1] + helpers)
        if selfref:
            inline[0] = ('m', inline[0][1] + [h for h in helpers if not any(k == h[0] for k, _ in inline[0][1])])
        if rng.random() < 0.4:
            # the layered parameter is also consumed through a member lookup (the on-the-fly walk
            # through its layers), in both twins
            look = (S('look'), S('${t:n:%s}' % rng.choice('xyz') if nest else '${t:%s}' % rng.choice('xyz')))
            inline[0] = ('m', inline[0][1] + [look])
            refd[0] = ('m', refd[0][1] + [look])
        if rng.random() < 0.4:
            # ... and as a whole value by another parameter (which has a layer of its own below the reference)
            wh = S('${t:n}' if nest else '${t}')
            kind0 = vals[0][0]
            lay0 = ('l', [S('w0')]) if kind0 == 'l' else ('m', [(S('w0'), I(0))]) if kind0 == 'm' else None
            own = lay0 is not None and rng.random() < 0.7
            for tw in (inline, refd):
                if own:
                    tw[0] = ('m', tw[0][1] + [(S('whole'), lay0)])
                tw[-1] = ('m', tw[-1][1] + [(S('whole'), wh)])
        a, b = C.case_id('i', i), C.case_id('r', i)
        cases.append({'id': a, 'line': V.stack_line(a, 'value', inline), 'show': V.stack_show(inline), 'nontrivial': False})
        cases.append({'id': b, 'line': V.stack_line(b, 'value', refd), 'show': V.stack_show(refd), 'nontrivial': True, 'twin': a})
    # many reference layers, each reached through a chain of aliases: what one layer's resolution costs
    # (depth of its chain) does not count against the next layer -- > 64 hops in total, <= 10 per layer
    for i in range(40 if tier == 'quick' else 600):
        nl, hops = rng.randint(8, 14), rng.randint(6, 10)
        kind = rng.choice('lm')
        vals = [('l', [I(j)]) if kind == 'l' else ('m', [(S(rng.choice('xyz')), I(j))]) for j in range(nl)]
        helpers = []
        for j, v in enumerate(vals):
            helpers.append((S('h%d_0' % j), v))
            helpers += [(S('h%d_%d' % (j, h)), S('${h%d_%d}' % (j, h - 1))) for h in range(1, hops)]
        rng.shuffle(helpers)
        inline = [('m', [(S('t'), v)]) for v in vals]
        refd = [('m', [(S('t'), S('${h%d_%d}' % (j, hops - 1)))]) for j in range(nl)]
        refd[0] = ('m', refd[0][1] + helpers)
        if i % 2:
            lay0 = ('l', [S('w0')]) if kind == 'l' else ('m', [(S('w0'), I(0))])
            for tw in (inline, refd):
                tw[0] = ('m', tw[0][1] + [(S('whole'), lay0)])
                tw[-1] = ('m', tw[-1][1] + [(S('whole'), S('${t}'))])
        a, b = C.case_id('di', i), C.case_id('dr', i)
        cases.append({'id': a, 'line': V.stack_line(a, 'value', inline), 'show': V.stack_show(inline), 'nontrivial': False})
        cases.append({'id': b, 'line': V.stack_line(b, 'value', refd), 'show': V.stack_show(refd)[:600], 'nontrivial': True, 'twin': a})

    # a layer given by a reference whose path is computed (${lists:${which}}), the referenced value mentioning the
    # selector again: the twin writes the value out
    for i in range(60 if tier == 'quick' else 1500):
        sel = rng.choice(['a', 'b'])
        kind = rng.choice('lm')
        tgt = {k: (('l', [S('${which}'), S(k)]) if kind == 'l' else ('m', [(S('tag'), S('env-${which}')), (S(k), I(1))])) for k in 'ab'}
        first = ('l', [S('first')]) if kind == 'l' else M(('first', I(0)))
        last = ('l', [S('last')]) if kind == 'l' else M(('last', I(9)))
        common = [(S('which'), S(sel)), (S('lists'), ('m', [(S(k), v) for k, v in tgt.items()])), (S('ptr'), S('lists:' + sel))]
        refform = S(rng.choice(['${lists:${which}}', '${lists:${which}}', '${${ptr}}']))
        refd = [('m', common + [(S('t'), first)]), M(('t', refform)), M(('t', last))]
        inline = [('m', common + [(S('t'), first)]), M(('t', tgt[sel])), M(('t', last))]
        a, b = C.case_id('ci', i), C.case_id('cr', i)
        cases.append({'id': a, 'line': V.stack_line(a, 'value', inline), 'show': V.stack_show(inline), 'nontrivial': False})
        cases.append({'id': b, 'line': V.stack_line(b, 'value', refd), 'show': V.stack_show(refd), 'nontrivial': True, 'twin': a})

    def get_t(o):
        v = C.canon_value(o)
        d = {k[1]: x for k, x, _ in v[1] if k and k[0] == 'str'}
        return (d.get('t', ('<none>',)), d.get('look', ('<none>',)), d.get('whole', ('<none>',)))

    def oracle(cases, mobs, iobs):
        fails = []
        for c in cases:
            if 'twin' not in c:
                continue
            o, o1 = iobs.get(c['id'], ''), iobs.get(c['twin'], '')
            ka, kb = obs_kind(o), obs_kind(o1)
            bad = None
            if (ka == 'ok') != (kb == 'ok'):
                bad = 'reference layers: %s, inline twin: %s' % (C.describe(o)[:200], C.describe(o1)[:200])
            elif ka == 'ok' and get_t(o) != get_t(o1):
                bad = 'merged value differs from the inline twin: %r vs %r' % (get_t(o), get_t(o1))
            if bad:
                fails.append({'key': 'layer-ref-not-transparent', 'severity': 'fail', 'show': c['show'], 'lines': [c['line']],
                              'reason': bad, 'impl': C.describe(o), 'size': len(c['line'])})
        return fails
    rule = ('%d metamorphic twin pairs: a stack of 2-5 layers of key t (mappings with ~/= members, lists, scalars, null; top level '
            'or nested one level) and the same stack with a random subset of layers replaced by references to helper keys '
            'holding the layer (30%% through a second reference); oracle: both fail or both render t (and a member lookup ${t:x} into it, in 40%% of the pairs) identically (likewise a parameter `whole` that merges ${t} as a whole value over a layer of its own); plus twins with 8-14 reference layers each behind 6-10 aliases (more than 64 hops in total); plus '
            'model/impl comparison on every case; non-trivial = the twin with reference layers' % n)
    return C.standard_run(cases, rule, key_fn=lambda c, m, i, r: 'model-impl-differ', extra_oracle=oracle)

# C08: reference cycles are errors; acyclic references never are.
import valgen as V
from common import *  # noqa


def chain_root(n, rng):
    """r0 = 1, r_i = ${r_{i-1}}: rendering r_{n-1} nests n-1 resolutions"""
    es = [(S('r0'), I(1))] + [(S('r%d' % i), S('${r%d}' % (i - 1))) for i in range(1, n)]
    rng.shuffle(es)
    return [('m', es)]


def run(tier, rng, C):
    n = 2500 if tier == 'quick' else 80000
    cases = []
    for i in range(n):
        cyc = (i % 3 == 0)
        layers, info = V.ranked_root(rng, cyc=cyc)
        cid = C.case_id('g', i)
        cases.append({'id': cid, 'line': V.stack_line(cid, 'value', layers), 'show': V.stack_show(layers),
                      'nontrivial': True, 'cyclic': cyc, 'nrefs': sum(V.count_refs(l) for l in layers)})
    # sharing: the same reference used many times, diamonds
    for i in range(60 if tier == 'quick' else 600):
        k = rng.choice([rng.randint(2, 20), rng.randint(2, 20), 66, 70, 130])
        es = [(S('base'), M(('x', I(1)))), (S('a'), S('${base}')), (S('b'), S('${base}')),
              (S('many'), ('l', [S('${a}')] * k)), (S('emb'), S(' '.join(['${a:x}'] * k))),
              (S('dia'), M(('l', S('${a}')), ('r', S('${b}'))))]
        cid = C.case_id('h', i)
        layers = [('m', es)]
        cases.append({'id': cid, 'line': V.stack_line(cid, 'value', layers), 'show': V.stack_show(layers),
                      'nontrivial': True, 'cyclic': False, 'nrefs': 3 * k})
    # sibling references in one string / list, each through an alias chain: the resolutions of one
    # sibling must not count against the next (total resolutions > 64, nesting < 64)
    for i in range(20 if tier == 'quick' else 300):
        hops = rng.randint(2, 12)
        sib = rng.randint(64 // hops + 1, 64 // hops + 6)
        es = [(S('v0'), rng.choice([I(5), S('txt'), B(True), N]))]
        es += [(S('v%d' % h), S('${v%d}' % (h - 1))) for h in range(1, hops)]
        es.append((S('emb'), S('-'.join(['${v%d}' % (hops - 1)] * sib))))
        es.append((S('lst'), ('l', [S('${v%d}' % (hops - 1))] * sib)))
        rng.shuffle(es)
        cid = C.case_id('s', i)
        layers = [('m', es)]
        if i % 2:
            # ... nor over the layers of one multiply-defined parameter
            layers += [M(('lay', S('${v%d}' % (hops - 1)))) for _ in range(sib)]
        cases.append({'id': cid, 'line': V.stack_line(cid, 'value', layers),
                      'show': '%d sibling references, each through a chain of %d aliases: %s' % (sib, hops, V.stack_show(layers)[:300]),
                      'nontrivial': True, 'cyclic': False, 'nrefs': 0, 'chain': hops})
    # chains around the documented limit of 64
    for ln in list(range(60, 70)) + [2, 10, 33]:
        cid = C.case_id('k', ln)
        layers = chain_root(ln, rng)
        cases.append({'id': cid, 'line': V.stack_line(cid, 'value', layers), 'show': 'chain of %d whole-value references' % (ln - 1),
                      'nontrivial': True, 'cyclic': False, 'nrefs': ln - 1, 'chain': ln - 1})

    # chains whose links are not whole-value references: embedded in text, list elements, mapping
    # members looked into, fully indirect paths, and mixtures (every link nests exactly one level)
    def styled_chain(ln, style):
        es = [(S('r0'), M(('a', S('end'))) if style == 'member' else S('end'))]
        for j in range(1, ln):
            st = style if style != 'mixed' else rng.choice(['whole', 'embed', 'list', 'indirect'])
            prev = 'r%d' % (j - 1)
            if st == 'whole':
                v = S('${%s}' % prev)
            elif st == 'embed':
                v = S('x${%s}' % prev)
            elif st == 'list':
                v = ('l', [S('${%s}' % prev)])
            elif st == 'member':
                v = M(('a', S('${%s:a}' % prev)))
            else:
                es.append((S('p%d' % j), S(prev)))
                v = S('${${p%d}}' % j)
            es.append((S('r%d' % j), v))
        top = es[-1]
        body = es[:-1]
        rng.shuffle(body)
        return [('m', body + [top])]
    for style in ['embed', 'list', 'member', 'indirect', 'mixed']:
        for ln in ([12, 33, 34, 41, 63, 64, 65, 66, 67] if tier == 'quick' else list(range(2, 70))):
            cid = C.case_id('y' + style[0:2], ln)
            layers = styled_chain(ln, style)
            cases.append({'id': cid, 'line': V.stack_line(cid, 'value', layers), 'show': 'chain of %d %s references' % (ln - 1, style),
                          'nontrivial': True, 'cyclic': False, 'nrefs': ln - 1, 'chain': ln - 1})

    # the chain of references is a chain of *looked-up paths*; the key a value is stored under is irrelevant:
    # (a) keys that contain a colon and read like the path they reference, (b) values rendered against a
    # foreign root (Value::rendered(&root)) whose own keys equal the paths they reference
    for i in range(40 if tier == 'quick' else 600):
        leaf = rng.choice([I(3), S('v1.2'), B(True), ('l', [I(1)]), M(('z', I(0)))])
        k1, k2 = rng.choice(['image', 'a', 'cluster']), rng.choice(['tag', 'b', 'name'])
        es = [(S(k1), M((k2, leaf), ('other', S('o')))),
              (S('%s:%s' % (k1, k2)), S('${%s:%s}' % (k1, k2)))]
        if i % 2:
            es.append((S('wrap'), M(('%s:%s' % (k1, k2), S('pre-${%s:other}' % k1)), ('%s:other' % k1, S('${%s:other}' % k1)))))
        rng.shuffle(es)
        layers = [('m', es)]
        cid = C.case_id('ck', i)
        cases.append({'id': cid, 'line': V.stack_line(cid, 'value', layers), 'show': V.stack_show(layers),
                      'nontrivial': True, 'cyclic': False, 'nrefs': 3, 'chain': 1})
    for i in range(40 if tier == 'quick' else 600):
        leaf = rng.choice([I(3), S('n1'), B(False), ('l', [S('x')]), M(('z', I(0)))])
        k1, k2 = rng.choice(['name', 'cluster', 'a']), rng.choice(['name', 'env', 'b'])
        if i % 2:
            root = [('m', [(S(k1), M((k2, leaf)))])]
            val = [('m', [(S(k1), M((k2, S('${%s:%s}' % (k1, k2)))))])]
        else:
            root = [('m', [(S(k1), leaf), (S('alias'), S('${%s}' % k1))])]
            val = [('m', [(S(k1), S('${%s}' % k1)), (S('via'), S('${alias}')), (S('alias'), S('${alias}'))])]
        cid = C.case_id('fr', i)
        line = '%s value3 %d %s %d %s' % (cid, len(root), ' '.join(enc(l) for l in root), len(val), ' '.join(enc(l) for l in val))
        cases.append({'id': cid, 'line': line, 'show': 'root ' + V.stack_show(root) + ' ; value rendered against it: ' + V.stack_show(val),
                      'nontrivial': True, 'cyclic': False, 'nrefs': 3, 'chain': 2})

    def oracle(cases, mobs, iobs):
        fails = []
        for c in cases:
            o = iobs.get(c['id'], '')
            k = obs_kind(o)
            msg = unhx(o.split(' ')[1]).lower() if k == 'err' and len(o.split(' ')) > 1 else ''
            bad = None
            if c['cyclic']:
                if k == 'ok':
                    bad = 'a cyclic chain of references rendered to a value'
                elif k == 'panic':
                    bad = 'cyclic references: ' + C.describe(o)
            else:
                if 'loop' in msg:
                    bad = 'acyclic references rejected as a loop'
                elif 'depth' in msg and c['nrefs'] <= 64 and c.get('chain', 0) < 64:
                    bad = 'acyclic references with %d reference occurrences hit the depth limit' % c['nrefs']
                elif c.get('chain') is not None and c['chain'] < 64 and k != 'ok':
                    bad = 'chain of %d references (shorter than the limit of 64) rejected: %s' % (c['chain'], C.describe(o))
            if bad:
                fails.append({'key': 'cycle-detection', 'severity': 'fail', 'show': c['show'], 'lines': [c['line']],
                              'reason': bad, 'impl': C.describe(o), 'size': len(c['line'])})
        return fails
    rule = ('%d reference graphs over 2-8 keys, one third with a cycle inserted through a whole value / embedded / list element / '
            'mapping value / layer placement; sharing cases (one reference used 2-20 times, diamonds); chains of 1..68 (whole-value, embedded, list, member, fully indirect, mixed links) '
            'whole-value references around the limit of 64; keys containing a colon that read like the path they reference; values rendered against a foreign root whose keys equal the referenced paths; oracle: cyclic -> error (never a value, never a panic), acyclic -> '
            'never a loop error, depth error only beyond 64; model/impl comparison on all' % n)
    return C.standard_run(cases, rule, key_fn=lambda c, m, i, r: 'model-impl-differ', extra_oracle=oracle)

# C10: override keys replace instead of merging.
import valgen as V
import props.merge_common as MC
from common import *  # noqa


def over_stack(rng):
    depth = rng.randint(0, 2)
    nl = rng.randint(1, 5)
    path = ['p%d' % d for d in range(depth)]
    layers = []
    empty_name = rng.random() < 0.08
    for i in range(nl):
        r = rng.random()
        # (a key can be overriding and constant at once: both markers on one key, or one marker per layer)
        key = '~k' if r < 0.4 else (rng.choice(['~=k', '=~k']) if r < 0.5 else ('=k' if r < 0.55 else 'k'))
        if empty_name:
            key = key.replace('k', '') if key in ('~k', '=k', 'k') else key      # the key with the empty name: `~`, `=`, ``
        es = [(S(key), V.plain_value(rng, 2))]
        if rng.random() < 0.5:
            es.append((S(rng.choice(['j', '~j'])), V.plain_value(rng, 1)))
        v = ('m', es)
        for seg in reversed(path):
            v = ('m', [(S(seg), v)])
        layers.append(v)
    return layers


def run(tier, rng, C):
    stacks = [s for s in MC.exhaustive_kind_stacks(3 if tier == 'thorough' else 2, markers=('', '~')) if V.has_marker(s, '~')]
    n = 4000 if tier == 'quick' else 120000
    for _ in range(n):
        stacks.append(over_stack(rng))
    for _ in range(300 if tier == 'quick' else 8000):
        # `tmpl` is built from 1-3 layers that override member b; `target` has an earlier b of another
        # kind and receives tmpl through a reference layer (the override must still replace)
        kinds = list(MC.KINDS)
        nl = rng.randint(1, 3)
        first = [(S('target'), M(('b', MC.KINDS[rng.choice(kinds)]()), ('o', I(0))))]
        layers = []
        lead = rng.random() < 0.4
        for j in range(nl + (1 if lead else 0)):
            if lead and j == 0:
                # the template starts out as an empty mapping (or with other members only)
                es = [(S('tmpl'), rng.choice([('m', []), M(('o', I(1)))]))]
            else:
                es = [(S('tmpl'), M((rng.choice(['~b', '~b', 'b', '~b', '~b', 'b', '=b', '~=b', '=~b']), MC.KINDS[rng.choice(kinds)]())))]
            layers.append(('m', (first if j == 0 else []) + es))
        layers.append(M(('target', S('${tmpl}'))))
        stacks.append(layers)
    for _ in range(150 if tier == 'quick' else 4000):
        # one document spells a key twice (k and =k: two different strings, one key): its two values are two
        # layers of that key, in order, merged after the earlier classes' layers; a nested override in the
        # second spelling discards what ALL earlier layers contributed
        kinds = list(MC.KINDS)
        kv = lambda: MC.KINDS[rng.choice(kinds)]()
        base = M(('k', M(('j', kv()), ('sibling', I(1)))))
        later = ('m', [(S('k'), M((rng.choice(['j', 'j', '~j']), kv()))),
                       (S(rng.choice(['=k', '=k', '~k'])), M((rng.choice(['~j', '~j', 'j']), kv()), ('n', I(2))))])
        if rng.random() < 0.4:
            # the override spelling first, the plain one second, at the top level of the document too: the key is
            # then pending-override and two layers deep at once when the document is merged over the earlier ones
            later = ('m', [(S('~k'), kv()), (S('k'), kv())] + ([(S('o'), I(1))] if rng.random() < 0.5 else []))
            base = M(('k', kv()), ('other', S('kept')))
        st = [base, later]
        if rng.random() < 0.4:
            st.append(M(('k', M((rng.choice(['j', '~j']), kv())))))
        if rng.random() < 0.3:
            st.insert(0, M(('k', M(('j', kv())))))
        stacks.append(st)
    stacks += MC.nested_sequences(rng, 1500 if tier == 'quick' else 40000, markers=('', '', '~', '~'))
    cases = MC.build_cases(C, stacks)
    for c in cases:
        c['nontrivial'] = V.has_marker(c['layers'], '~')
    # an overridden member looked up through its (multiply defined) parent: `x: ${q:m}` and `t: "<${q:m}>"`
    # see what q.m renders to, i.e. only what the override and later layers contribute.  The specification is
    # applied to the stack with the lookups written out as the layers of q.m themselves.
    for i in range(200 if tier == 'quick' else 6000):
        kinds = [k for k in MC.KINDS]
        nl = rng.randint(2, 4)
        oi = rng.randint(1, nl - 1)
        mls = []
        for j in range(nl):
            mk = '~m' if j == oi else rng.choice(['m', 'm', '~m', 'n'])
            mls.append(M((mk, MC.KINDS[rng.choice(kinds)]()), ('o%d' % j, I(j))))
        deep = rng.random() < 0.4
        wrap = (lambda v: M(('q', M(('r', v))))) if deep else (lambda v: M(('q', v)))
        path = 'q:r:m' if deep else 'q:m'
        layers = [wrap(l) for l in mls] + [M(('x', S('${%s}' % path)))]
        inl = [wrap(l) for l in mls] + [M(('x' if not k.startswith('~') else '~x', v)) for l in mls for (_, k), v in [((None, l[1][0][0][1]), l[1][0][1])] if k.lstrip('~') == 'm']
        cid = C.case_id('lk', i)
        cases.append({'id': cid, 'line': V.stack_line(cid, 'value', layers), 'show': V.stack_show(layers),
                      'clean': all(MC.clean_layer(l) for l in inl), 'layers': layers, 'nontrivial': True,
                      'spec_line': V.stack_line(cid, 'spec', inl)})
    rule = ('exhaustive kind stacks containing an override marker (incl. override after a type conflict, override with no '
            'earlier value, kind changes) + %d random stacks with ~k (sometimes ~=k, =~k, =k) at random layers and depth 0-2 with sibling keys; '
            'non-trivial = an override marker present; plus sequences of 3-5 layers giving one nested key values of random kinds (nulls, empty containers); plus overridden members looked up through their multiply defined parent (${q:m}; specification applied to the stack with the lookup written out); oracle = extracted Spec/DeepMerge.v' % n)
    return C.standard_run(cases, rule, key_fn=lambda c, m, i, r: 'model-impl-differ', extra_oracle=MC.spec_oracle(C))

# C10: override keys replace instead of merging.
import valgen as V
import props.merge_common as MC
from common import *  # noqa


def over_stack(rng):
    depth = rng.randint(0, 2)
    nl = rng.randint(1, 5)
    path = ['p%d' % d for d in range(depth)]
    layers = []
    for i in range(nl):
        r = rng.random()
        key = '~k' if r < 0.4 else 'k'
        es = [(S(key), V.plain_value(rng, 2))]
        if rng.random() < 0.5:
            es.append((S(rng.choice(['j', '~j'])), V.plain_value(rng, 1)))
        v = ('m', es)
        for seg in reversed(path):
            v = ('m', [(S(seg), v)])
        layers.append(v)
    return layers


def run(tier, rng, C):
    stacks = [s for s in MC.exhaustive_kind_stacks(3 if tier == 'thorough' else 2, markers=('', '~')) if V.has_marker(s, '~')]
    n = 4000 if tier == 'quick' else 120000
    for _ in range(n):
        stacks.append(over_stack(rng))
    stacks += MC.nested_sequences(rng, 1500 if tier == 'quick' else 40000, markers=('', '', '~', '~'))
    cases = MC.build_cases(C, stacks)
    for c in cases:
        c['nontrivial'] = V.has_marker(c['layers'], '~')
    rule = ('exhaustive kind stacks containing an override marker (incl. override after a type conflict, override with no '
            'earlier value, kind changes) + %d random stacks with ~k at random layers and depth 0-2 with sibling keys; '
            'non-trivial = an override marker present; plus sequences of 3-5 layers giving one nested key values of random kinds (nulls, empty containers); oracle = extracted Spec/DeepMerge.v' % n)
    return C.standard_run(cases, rule, key_fn=lambda c, m, i, r: 'model-impl-differ', extra_oracle=MC.spec_oracle(C))

# C18: node metadata matches how the node was discovered.
import invgen as G
from common import *  # noqa

SEGS = ['x', 'a.b', '_u', 'y_', 'n1', 'web.prod', 'co$t', 'dom\\host', 'a b']


def spec_meta(path, compose, dots):
    """Python reading of the property: (name, parts)"""
    stem = path[-1].rsplit('.', 1)[0]
    segs = list(path[:-1]) + [stem]
    if stem == 'init':
        name_segs = list(path[:-1])
    else:
        name_segs = segs
    first = '/'.join(name_segs)
    if (not compose) or first.startswith('_'):
        name = name_segs[-1] if name_segs else ''
    else:
        name = '.'.join(name_segs)
    if not compose:
        parts = [name]
    elif dots:
        parts = name.split('.')
    elif segs[0].startswith('_'):
        parts = [segs[-1]]
    else:
        parts = segs
    return name, parts


def run(tier, rng, C):
    n = 300 if tier == 'quick' else 12000
    cases, meta = [], {}
    bare_ids = set()
    for i in range(n):
        inv = G.Inv()
        inv.compose = rng.random() < 0.7
        inv.dots = rng.random() < 0.4
        depth = rng.randint(0, 3)
        path = tuple(rng.choice(SEGS) for _ in range(depth)) + (rng.choice(SEGS + ['init']) + rng.choice(['.yml', '.yaml']),)
        inv.classes[('c.yml',)] = G.doc([], [], ('m', [(S('cv'), S('${_reclass_:name:full}'))]))
        inv.nodes[path] = G.doc(['c'], [], ('m', [(S('short'), S('${_reclass_:name:short}')),
                                                  (S('p'), S('${_reclass_:name:path}|${_reclass_:environment}')),
                                                  (S('parts'), S('${_reclass_:name:parts}'))]))
        bare = i % 6 == 5
        if bare:
            # a node that defines nothing (or applications only): the metadata is all its parameters hold
            inv.nodes[path] = rng.choice([('m', []), G.doc(None, ['app'], None), G.doc([], None, ('m', [])), G.doc([], [], None)])
        name, parts = spec_meta(path, inv.compose, inv.dots)
        cid = C.case_id('m', i)
        if bare:
            bare_ids.add(cid)
        cases.append({'id': cid, 'line': G.inv_line(cid, inv, G.op_node(name)), 'show': G.show_inv(inv, 'node ' + name),
                      'nontrivial': depth >= 1})
        meta[cid] = (path, name, parts)
    # nodes discovered through symbolic links (a linked file, a linked directory): the metadata follows the
    # path under which the node was discovered, not the link's target
    for i in range(60 if tier == 'quick' else 1500):
        inv = G.Inv()
        inv.dots = rng.random() < 0.3
        ndoc = G.doc(['c'], [], ('m', [(S('short'), S('${_reclass_:name:short}')),
                                       (S('p'), S('${_reclass_:name:path}|${_reclass_:environment}')),
                                       (S('parts'), S('${_reclass_:name:parts}'))]))
        inv.classes[('c.yml',)] = G.doc([], [], ('m', [(S('cv'), S('${_reclass_:name:full}'))]))
        inv.nodes[('real', 'web.yml')] = ndoc
        kind = rng.choice(['file', 'subfile', 'dir'])
        if kind == 'file':
            inv.compose = rng.random() < 0.5
            path = ('lnk.yml',)
            inv.nodes[path] = ('linkfile', 'real/web.yml', ndoc)
        elif kind == 'subfile':
            inv.compose = rng.random() < 0.5
            path = (rng.choice(['s', '_s', 'a.b']), 'lnk.yaml')
            inv.nodes[path] = ('linkfile', '../real/web.yml', ndoc)
        else:
            inv.compose = True        # (without composition both files would be node `web`)
            path = ('grp', 'web.yml')
            inv.nodes[('grp',)] = ('link', 'real')
            inv.nodes[path] = ('virt', ndoc)
        name, parts = spec_meta(path, inv.compose, inv.dots)
        cid = C.case_id('l', i)
        cases.append({'id': cid, 'line': G.inv_line(cid, inv, G.op_node(name)), 'show': G.show_inv(inv, 'node ' + name),
                      'nontrivial': True})
        meta[cid] = (path, name, parts)

    def oracle(cases, mobs, iobs):
        fails = []
        for c in cases:
            path, name, parts = meta[c['id']]
            o = iobs.get(c['id'], '')
            if obs_kind(o) != 'ok':
                if parts and parts != [''] and name != '':
                    fails.append({'key': 'node-metadata', 'severity': 'fail', 'show': c['show'], 'lines': [c['line']],
                                  'reason': 'node %r does not render: %s' % (name, C.describe(o)[:200]), 'impl': C.describe(o),
                                  'size': len(c['line'])})
                continue
            toks = o.split(' ')
            node, nm, uri, env = [unhx(t[1:]) for t in toks[1:5]]
            params = C.parse_canon(o.split(' P ', 1)[1].split(' '))[0]
            d = {k[1]: v for k, v, _ in params[1]}
            if '_reclass_' not in d:
                fails.append({'key': 'node-metadata', 'severity': 'fail', 'show': c['show'], 'lines': [c['line']],
                              'reason': 'parameter _reclass_ is missing from the rendered node', 'impl': C.describe(o), 'size': len(c['line'])})
                continue
            if c['id'] in bare_ids:
                d.update({'short': ('lit', parts[-1]), 'p': ('lit', '/'.join(parts) + '|base'), 'cv': ('lit', name)})
            rc = {k[1]: v for k, v, _ in d['_reclass_'][1]}
            nd = {k[1]: v for k, v, _ in rc['name'][1]}
            want = {'node': name, 'name': name, 'uri': 'yaml_fs://<NODES>/' + '/'.join(path), 'env': 'base',
                    'full': name, 'parts': parts, 'path': '/'.join(parts), 'short': parts[-1]}
            got = {'node': node, 'name': nm, 'uri': uri, 'env': env, 'full': nd['full'][1], 'parts': [x[1] for x in nd['parts'][1]],
                   'path': nd['path'][1], 'short': nd['short'][1]}
            bad = None
            if got != want:
                bad = 'metadata %s, the property gives %s' % (got, want)
            elif d['short'] != ('lit', parts[-1]) or d['p'] != ('lit', '/'.join(parts) + '|base') or d['cv'] != ('lit', name):
                bad = 'metadata referenced from parameters renders to %r / %r / %r' % (d['short'], d['p'], d['cv'])
            elif rc['environment'] != ('lit', 'base'):
                bad = 'environment %r' % (rc['environment'],)
            if bad:
                fails.append({'key': 'node-metadata', 'severity': 'fail', 'show': c['show'], 'lines': [c['line']], 'reason': bad,
                              'model': C.describe(mobs.get(c['id'], '')), 'impl': C.describe(o), 'size': len(c['line'])})
        return fails
    rule = ('%d node files at depth 0-3 over segment names with dots, leading/trailing underscores and init files, both '
            'extensions, x compose_node_name x literal-dots flag, plus nodes discovered through a symlinked file or directory, plus nodes that define nothing themselves; the node and a class reference _reclass_ values; oracle = Python '
            'reading of the property (name, parts, path, short, uri, environment) on the implementation output; non-trivial = '
            'nested node path' % n)
    return C.standard_run(cases, rule, key_fn=lambda c, m, i, r: 'model-impl-differ', extra_oracle=oracle)

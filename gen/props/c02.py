# C02: layered parameters deep-merge.
import valgen as V
import props.merge_common as MC


def run(tier, rng, C):
    stacks = MC.exhaustive_kind_stacks(2 if tier == 'quick' else 3, markers=('', '~') if tier == 'quick' else ('', '~', '='))
    nrand = 4000 if tier == 'quick' else 150000
    for _ in range(nrand):
        stacks.append(V.stack(rng, rng.randint(1, 6), rng.randint(0, 4), markers=rng.choice([0, 0.1, 0.25]),
                              nonstr_keys=0.05))
    stacks += MC.nested_sequences(rng, 1500 if tier == 'quick' else 40000, markers=('', '', '', '~', '='))
    cases = MC.build_cases(C, stacks)
    # layers that are written as references to maps / lists / scalars elsewhere in the tree are layers all the same
    nref = 1200 if tier == 'quick' else 40000
    rcases = MC.build_cases(C, [V.ref_stack(rng, rng.randint(2, 5), rng.randint(1, 3), markers=0.05, p=0.3) for _ in range(nref)],
                            prefix='r')
    tstacks = []
    for _ in range(300 if tier == 'quick' else 6000):
        # one key whose every layer is a reference to a helper holding a value of a random kind
        helpers = [(V.S('h%d' % j), V.plain_value(rng, 2)) for j in range(rng.randint(2, 4))]
        tstacks.append([('m', helpers)] + [V.M(('t', V.S('${h%d}' % j))) for j in range(len(helpers))])
    rcases += MC.build_cases(C, tstacks, prefix='t')
    # mapping-valued keys written with their entries in different orders in different layers are one key
    # (mappings compare without regard to entry order): the layers merge as usual
    pstacks = []
    for _ in range(200 if tier == 'quick' else 5000):
        ents = [(V.S(k), V.scalar(rng)) for k in rng.sample(['a', 'b', 'c', 'd'], rng.randint(2, 4))]
        if rng.random() < 0.3:
            ents.append((V.S('n'), ('m', [(V.S('y'), V.I(1)), (V.S('x'), V.I(2))])))
        nl = rng.randint(2, 4)
        kinds = list(MC.KINDS)
        kind = rng.choice(['list', 'map', 'num', 'mixed'])
        nest = rng.random() < 0.5
        layers = []
        for j in range(nl):
            key = ('m', rng.sample(ents, len(ents)))
            if key[1][-1][0] == V.S('n') and rng.random() < 0.5:
                key = ('m', key[1][:-1] + [(V.S('n'), ('m', [(V.S('x'), V.I(2)), (V.S('y'), V.I(1))]))])
            val = MC.KINDS[rng.choice(kinds) if kind == 'mixed' else kind]()
            es = [(key, val), (V.S('o'), V.I(j))]
            rng.shuffle(es)
            layers.append(('m', [(V.S('p'), ('m', es))]) if nest else ('m', es))
        pstacks.append(layers)
    rcases += MC.build_cases(C, pstacks, prefix='p')
    for c in rcases:
        c['clean'] = False      # the specification oracle speaks about reference-free stacks only
    cases += rcases
    for c in cases:
        c['nontrivial'] = V.has_shared_key(c['layers'])
    rule = ('exhaustive: all stacks of <= %d layers over 8 value shapes (null,bool,num,str,list,map,...) at one key, top level '
            'and nested, with every marker combination; plus %d random stacks (<= 6 layers, depth <= 4, null/override/constant '
            'sprinkled, non-string keys); non-trivial = some key defined by >= 2 layers; plus sequences of 3-5 layers giving one nested key values of random kinds (nulls, empty containers); plus %d stacks in which layers are given by reference; plus stacks whose layers spell one mapping-valued key with its entries in different orders; oracle = extracted Spec/DeepMerge.v on '
            'clean-key stacks, model/impl comparison on all' % (2 if tier == 'quick' else 3, nrand, nref))
    return C.standard_run(cases, rule, key_fn=lambda c, m, i, r: 'model-impl-differ', extra_oracle=MC.spec_oracle(C),
                          exhaustive=True)

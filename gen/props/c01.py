# C01: classes merge depth-first, each once, node last.
# Differential run + independent oracle: every class carries `trace: [<own name>]`, lists
# concatenate, so the rendered `trace` is the merge order; it is compared with a direct
# Python reading of the property (post-order walk, each absolute class once, reference-bearing
# include entries resolved against what has been merged so far, node last).
import invgen as G
from common import *  # noqa


class SpecError(Exception):
    pass


def strings(ast):
    return [x[1] for x in ast[1]] if ast and ast[0] == 'l' else []


def field(doc, name):
    for k, v in doc[1]:
        if k == ('s', name):
            return v
    return None


def spec_trace(inv, node_path):
    classes = {}
    for p, d in inv.classes.items():
        name = '.'.join(p[:-1] + (p[-1][:-4],))
        classes[name] = (d, list(p[:-1]))
    seen, order, sel = [], [], {}
    stack = []

    def params_of(doc):
        out = {}
        ps = field(doc, 'parameters')
        if ps:
            for k, v in ps[1]:
                if k[0] == 's' and v[0] == 's' and k[1][:3] in ('sel', 'rel', 'ali'):
                    out[k[1]] = v[1]
        return out

    def visit(doc, loc, name):
        if name in stack:
            raise SpecError('cycle')
        stack.append(name)
        # the include list is a list of distinct entries: names are made absolute when the file is
        # read and an entry spelled again (same text, e.g. a repeated `${sel}`) is the same entry
        incs = []
        for inc in strings(field(doc, 'classes')):
            inc = G.py_abs_class_name(loc, inc)
            if inc not in incs:
                incs.append(inc)
        for inc in incs:
            if '${' in inc:
                key = inc[2:-1]
                if key not in sel:
                    raise SpecError('selector not defined yet')
                inc = sel[key]
                hops = 0
                while inc.startswith('${') and hops < 8:
                    if inc[2:-1] not in sel:
                        raise SpecError('selector not defined yet')
                    inc, hops = sel[inc[2:-1]], hops + 1
            inc = G.py_abs_class_name(loc, inc)
            if inc in seen:
                continue
            if inc not in classes:
                if inv.ignore and inc in inv.matches():
                    continue
                raise SpecError('missing ' + inc)
            d, l = classes[inc]
            visit(d, l, inc)
            seen.append(inc)
            order.append(inc)
            sel.update(params_of(d))
        stack.pop()
    nd = inv.nodes[node_path]
    visit(nd, [], '<node>')
    return order + ['NODE']


def run(tier, rng, C):
    n = 700 if tier == 'quick' else 25000
    cases, meta = [], {}
    for i in range(n):
        r = i % 6
        inv, names, incl = G.include_graph_inv(
            rng, cyclic=(r == 5), refs=0.3, missing=(0.08 if i % 12 == 4 else 0.35) if r == 4 else 0.0, conflicts=False,
            sel_override=0.5 if r in (1, 2) else 0.0, sel_relative=0.7 if r == 3 else 0.0,
            sel_alias=0.5 if r in (0, 2) else 0.0)
        if r == 4 and rng.random() < 0.7:
            inv.ignore = True
        for np_ in sorted(inv.nodes):
            cid = C.case_id('n', len(cases))
            name = np_[-1][:-4]
            cases.append({'id': cid, 'line': G.inv_line(cid, inv, G.op_node(name)), 'show': G.show_inv(inv, 'node ' + name),
                          'nontrivial': sum(len(v) for v in incl.values()) >= 2})
            meta[cid] = (inv, np_, r == 5)

    def oracle(cases, mobs, iobs):
        fails = []
        for c in cases:
            inv, np_, cyc = meta[c['id']]
            o = iobs.get(c['id'], '')
            k = obs_kind(o)
            try:
                want = spec_trace(inv, np_)
                serr = None
            except SpecError as e:
                want, serr = None, str(e)
            except RecursionError:
                want, serr = None, 'cycle'
            bad = None
            if k in ('panic', 'abort', 'timeout'):
                bad = 'rendering did not return a value or an error: ' + C.describe(o)
            elif serr and serr.startswith('missing'):
                if k == 'ok':
                    bad = 'a missing class that is not ignored did not fail the node'
            elif serr == 'cycle':
                pass                      # value or error are both acceptable; not returning is not
            elif want is not None and k == 'ok':
                toks = o.split(' P ', 1)[1].split(' ')
                params = C.parse_canon(toks)[0]
                tr = [x for kk, x, _ in params[1] if kk == ('str', 'trace')]
                got = [e[1] for e in tr[0][1]] if tr else None
                if got != want:
                    bad = 'merge order %s, the property gives %s' % (got, want)
            elif want is not None and k == 'err':
                msg = unhx(o.split(' ')[1])
                if ('Class' in msg and 'not found' in msg) or 'loop' in msg.lower():
                    bad = 'node fails (%s) although every include resolves; expected merge order %s' % (msg[:120], want)
            if bad:
                key = 'include-walk-does-not-return' if k in ('abort', 'timeout') else 'merge-order'
                if 'merge order' in bad and want and got:
                    extra = [x for x in got if got.count(x) > 1]
                    key = 'merge-order:class-merged-twice' if extra else ('merge-order:extra-class' if len(got) > len(want) else 'merge-order')
                fails.append({'key': key, 'severity': 'fail', 'show': c['show'], 'lines': [c['line']], 'reason': bad,
                              'model': C.describe(mobs.get(c['id'], '')), 'impl': C.describe(o), 'size': len(c['line'])})
        return fails
    rule = ('%d nodes over random include graphs of 2-7 classes in nested directories (diamonds, repeated siblings, relative '
            'names, reference-bearing include entries whose selector is defined by earlier classes, selectors re-defined by '
            'later classes, selectors holding relative names, missing classes with/without ignore, one sixth cyclic); '
            'observation = parameters, classes, applications; trace parameter = merge order; oracle = Python reading of the '
            'property (post-order, once, node last); non-trivial = >= 2 include edges' % n)
    return C.standard_run(cases, rule, key_fn=lambda c, m, i, r: 'model-impl-differ', extra_oracle=oracle)

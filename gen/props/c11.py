# C11: any inventory content yields a value or an error, never a crash.
# Every case runs in the harness process; a panic is caught and reported, an abort / stack
# overflow / timeout kills the process and is attributed to the case (the rest continues in
# a fresh process).  Oracle: outcome is a value or an error.
import invgen as G
import valgen as V
import props.c13 as P13
from common import *  # noqa


def tagged(rng):
    return ('t', rng.choice(['!foo', '!bin', '!Ref']), rng.choice([S('bar'), I(1), L(I(1)), M(('a', I(1)))]))


def weird_value(rng, depth=2):
    r = rng.random()
    if r < 0.12:
        return tagged(rng)
    if r < 0.24:
        # one YAML mapping spelling a key twice through markers
        k = rng.choice('ab')
        forms = rng.sample(['=' + k, k, '~' + k, '==' + k], 2)
        return ('m', [(S(forms[0]), V.scalar(rng)), (S(forms[1]), V.scalar(rng))])
    if r < 0.34:
        # container keys, also below (nested) sequences: the text form of such a value is an error
        m = ('m', [(rng.choice([L(I(1), I(2)), M(('x', I(1))), L()]), V.scalar(rng)), (S('z'), I(1))])
        for _ in range(rng.choice([0, 0, 1, 2, 3])):
            m = ('l', [V.scalar(rng), m] if rng.random() < 0.5 else [m])
        return m
    if r < 0.37:
        # a tagged KEY (alone, or beside plain keys; also nested): a conversion error like a tagged value
        tk = ('t', rng.choice(['!secret', '!foo']), rng.choice([S('pw'), I(1)]))
        m = ('m', [(tk, V.scalar(rng))] + ([(S('z'), I(1))] if rng.random() < 0.5 else []))
        if rng.random() < 0.4:
            m = rng.choice([('l', [m]), ('m', [(S('n'), m)])])
        return m
    if r < 0.44:
        return S(rng.choice(['${', '${}', '${a', '$[x]', '${a}}${', '\\${', '${${}}', '${x:y:z}', '${.}', '${:}', '${a:}', '${~}', '${emb}']))
    if depth > 0 and r < 0.7:
        return ('m', [(S(rng.choice(['a', 'b', '~a', '=b', ''])), weird_value(rng, depth - 1)) for _ in range(rng.randint(0, 2))
                      ][:1] + [(S('k%d' % depth), weird_value(rng, depth - 1))])
    if depth > 0 and r < 0.8:
        return ('l', [weird_value(rng, depth - 1) for _ in range(rng.randint(0, 3))])
    return V.scalar(rng)


def weird_inv(rng):
    inv = G.Inv()
    inv.ignore = rng.random() < 0.3
    ncl = rng.randint(1, 4)
    names = ['w%d' % i for i in range(ncl)]
    for i, nme in enumerate(names):
        incs = [rng.choice(names + ['.' + rng.choice(names), '..x', '${sel}', '${nosuch}', '${emb', 'no.such'])
                for _ in range(rng.randint(0, 2))]
        params = [(S('p%d' % i), weird_value(rng)), (S('sel'), S(rng.choice(names))),
                  (S('emb'), M(('a', I(1)), (rng.choice(['=a', 'a2']), I(2)))),
                  (S('txt'), S(rng.choice(['x ${emb}', '${p0}', 'y ${p%d}' % i, '${txt}'])))]
        if rng.random() < 0.15:
            # the text form of a value that has none (container key), at several sequence depths
            jk = ('m', [(rng.choice([L(I(1), I(2)), M(('x', I(1)))]), V.scalar(rng))])
            for _ in range(rng.randint(0, 3)):
                jk = ('l', [jk] if rng.random() < 0.6 else [V.scalar(rng), jk])
            params += [(S('jk'), jk), (S('jt'), S(rng.choice(['j ${jk}', '${jk} j', '${jk}${jk}'])))]
        rng.shuffle(params)
        d = G.doc(incs, [rng.choice(['a', '~a', '~', ''])], ('m', params))
        r = rng.random()
        if r < 0.08:
            d = ('m', [(S('classes'), rng.choice([N, S('x'), L(I(1)), M(('a', I(1)))])), (S('parameters'), ('m', params))])
        elif r < 0.14:
            d = ('m', [(S('parameters'), rng.choice([N, L(I(1)), S('x'), I(3)]))])
        elif r < 0.18:
            d = rng.choice([N, L(I(1)), S('text'), I(0)])
        inv.classes[(nme + '.yml',)] = d
    # files whose name is special to discovery, directly below the classes / nodes directory
    if rng.random() < 0.15:
        inv.classes[(rng.choice(['init.yml', 'init.yaml', '.yml', '..yml']),)] = G.doc([], [], ('m', [(S('i'), I(1))]))
    if rng.random() < 0.1:
        inv.nodes[(rng.choice(['init.yml', 'init.yaml', '_n.yml']),)] = G.doc(names[:1], [], ('m', [(S('q'), I(2))]))
    inv.universe.update(names + ['no.such', 'x', '1'])     # every name an include entry can spell, incl. the integer entry of L(I(1))
    inv.nodes[('n.yml',)] = G.doc(names[:2] + (['${sel}'] if rng.random() < 0.3 else []), [], ('m', [(S('q'), weird_value(rng, 1))]))
    return inv


RAW = [
    'parameters: [unclosed', 'parameters:\n\ta: tab', '---\n---\n', '', 'classes: [a, b\n', '{', 'parameters: {a: &x [1, *x]}',
    'parameters:\n  a: &a {b: 1}\n  c:\n    <<: *a\n    d: 2\n', 'parameters:\n  <<: [1, 2]\n', 'parameters:\n  a: *undefined\n',
    'parameters:\n  ? [complex, key]\n  : v\n  s: "x ${a}"\n', 'classes: !!set {a, b}\n', 'parameters: !!binary aGVsbG8=\n',
    'parameters:\n  a: !!python/object:os.system x\n', '\ufeffparameters: {a: 1}\n', 'parameters: {a: 1}\n...\ngarbage',
    'parameters:\n  a: 0x1F\n  b: 1e400\n  c: -.inf\n  d: 0o17\n  e: 123456789012345678901234567890\n',
    'parameters:\n  "=a": 1\n  a: 2\n', 'parameters:\n  a: !tag\n    b: 1\n', 'applications: {a: 1}\n', 'parameters:\n  a: "${" \n',
    'a' * 10000, 'parameters:\n' + ''.join('  k%d: &a%d [%s]\n' % (i, i, ','.join(['*a%d' % (i - 1)] * 9) if i else '1') for i in range(12)),
]


def buried_container_key_inv(rng):
    ckv = ('m', [(rng.choice([('l', [I(1), I(2)]), ('m', [(S('k'), I(1))]), ('l', [])]), rng.choice([I(3), S('v'), ('l', [I(1)])])), (S('plain'), I(4))])
    for _ in range(rng.randint(0, 3)):
        ckv = ('m', [(S('a'), ckv), (S('b'), I(0))]) if rng.random() < 0.7 else ('l', [I(0), ckv])
    inv = G.Inv()
    inv.classes[('l0.yml',)] = G.doc([], [], ('m', [(S('ck'), ckv), (S('other'), S('o'))]))
    inv.nodes[('n.yml',)] = G.doc(['l0'], [], ('m', [(S('emb'), S(rng.choice(['x-${ck}', '[${ck}]${other}', '${ck:a}-', '${ck}'])))]))
    inv.universe.add('l0')
    return inv


def run(tier, rng, C):
    cases = []
    n = 350 if tier == 'quick' else 15000

    def add(inv, op, show=None, nomodel=False, pre=''):
        cid = C.case_id('z' + pre, len(cases))
        cases.append({'id': cid, 'line': G.inv_line(cid, inv, op), 'show': show or G.show_inv(inv, op), 'nontrivial': True,
                      'nomodel': nomodel})
    # (a) AST-level fuzz of kinds, tags, keys, shapes
    for i in range(n):
        add(weird_inv(rng), G.op_node('n') if i % 3 else 'all')
    # (b) structured inventories from the other generators (cyclic include graphs included)
    for i in range(n // 3):
        inv, _, _ = G.include_graph_inv(rng, cyclic=(i % 2 == 0), missing=0.1, sel_override=0.3, sel_relative=0.3)
        add(inv, G.op_node('n0') if i % 4 else 'all')
    # (b1) layered parameter trees with references (one class per layer), consumed by member lookups that walk
    # through whatever the layers hold at a key (scalars, text, containers, references, nulls): a lookup through
    # a value that is no mapping is an error, through layered values it renders them on the fly
    for i in range(n // 3):
        layers = V.ref_stack(rng, rng.randint(2, 4), rng.randint(1, 3), markers=0.1, p=0.25)
        if i % 3 == 0:
            # one key holding plain text / scalars / nulls in several layers
            k0 = rng.choice(V.KEYS)
            layers = [('m', [(kk, vv) for kk, vv in l[1] if kk[1:] != S(k0)[1:]] +
                       [(S(k0), rng.choice([S('hello'), S('bye'), I(3), N, B(True), S('${kx}'), M(('text', S('t')))]))]) for l in layers]
        extra_looks = []
        if i % 4 == 1:
            # a mapping with a container key, buried 0-3 levels deep in mappings / lists, then embedded in text
            # (its JSON text form does not exist: an error, whatever the depth)
            ckv = ('m', [(rng.choice([('l', [I(1), I(2)]), ('m', [(S('k'), I(1))])]), I(3)), (S('plain'), I(4))])
            for _ in range(rng.randint(0, 3)):
                ckv = ('m', [(S('a'), ckv), (S('b'), I(0))]) if rng.random() < 0.6 else ('l', [I(0), ckv])
            layers = layers[:-1] + [('m', layers[-1][1] + [(S('ck'), ckv)])]
            extra_looks = [(S('emb'), S(rng.choice(['x-${ck}', '${ck}', '[${ck}]${ck}'])))]
        inv = G.Inv()
        names = []
        for j, l in enumerate(layers):
            inv.classes[('l%d.yml' % j,)] = G.doc([], [], l)
            names.append('l%d' % j)
        inv.universe.update(names)
        keys = sorted({k[1].lstrip('~=') for l in layers for k, _ in l[1] if k[0] == 's' and k[1].lstrip('~=')})
        looks = [(S('look%d' % q), S(rng.choice(['${%s:%s}', '<${%s:%s}>', '${%s:%s:a}']) % (rng.choice(keys), rng.choice(V.KEYS + ['text']))))
                 for q in range(rng.randint(1, 4))] if keys else []
        inv.nodes[('n.yml',)] = G.doc(names, [], ('m', looks + extra_looks))
        add(inv, G.op_node('n') if i % 4 else 'all')
    # (b1b) a mapping with a container key buried 0-3 levels deep in otherwise plain data, embedded in text or used
    # as a whole value: its JSON text form does not exist -- an error at every depth, never a crash
    for i in range(n // 8):
        add(buried_container_key_inv(rng), G.op_node('n') if i % 3 else 'all')
    for i in range(n // 6):
        inv = G.Inv()
        k = rng.randint(1, 4)
        loop = ['lp%d' % j for j in range(k)]
        defs = [(S('t%d' % j), S(loop[j])) for j in range(k)]
        inv.classes[('defs.yml',)] = G.doc([], [], ('m', defs))
        for j in range(k):
            nxt = (j + 1) % k
            entry = '${t%d}' % nxt if rng.random() < 0.8 else loop[nxt]
            inv.classes[(loop[j] + '.yml',)] = G.doc([entry], [], M(('v', I(j))))
        inv.universe.update(loop)
        inv.nodes[('n.yml',)] = G.doc(['defs', '${t0}' if rng.random() < 0.8 else loop[0]], [], M())
        add(inv, G.op_node('n') if i % 3 else 'all')
    # (c) byte-level content: invalid YAML, anchors/aliases, merge keys, tags, non-UTF-8, BOM; no model for these
    nb = 120 if tier == 'quick' else 4000
    for i in range(nb):
        inv = G.Inv()
        r = rng.random()
        if r < 0.5:
            content = ('raw', rng.choice(RAW))
        elif r < 0.75:
            content = ('bytes', bytes(rng.randrange(256) for _ in range(rng.randint(0, 60))))
        else:
            t = rng.choice(RAW)
            cut = rng.randint(0, len(t))
            content = ('bytes', t.encode('utf-8')[:cut] + bytes([rng.randrange(128, 256)]) + t.encode('utf-8')[cut:])
        where = rng.choice(['class', 'node', 'both'])
        inv.classes[('c.yml',)] = content if where in ('class', 'both') else G.doc([], [], M(('a', I(1))))
        inv.nodes[('n.yml',)] = content if where in ('node', 'both') else G.doc(['c'], [], M(('b', S('${a}'))))
        add(inv, G.op_node('n') if i % 2 else 'all', nomodel=True, pre='b')
    # (c2) file and directory names that are not valid UTF-8 (a raw byte 0xFF / 0xC3 in the name; the harness
    # writes U+F8FF + two hex digits as that byte), with relative and absolute includes inside: discovery
    # may reject them or not, rendering yields a value or an error; no model for these
    for i in range(40 if tier == 'quick' else 1200):
        inv = G.Inv()
        bad = rng.choice(['b\uf8ffFFd', '\uf8ffC3', 'x\uf8ff80', 'ok'])
        lossy = bad.replace('\uf8ffFF', '\ufffd').replace('\uf8ffC3', '\ufffd').replace('\uf8ff80', '\ufffd')
        where = rng.choice(['dir', 'dir', 'file', 'nodefile', 'nodedir'])
        rel = rng.choice(['.two', '..top', 'top', '.two'])
        if where == 'dir':
            inv.classes[(bad, 'one.yml')] = G.doc([rel], ['a'], M(('one', I(1))))
            inv.classes[(bad, 'two.yml')] = G.doc([], [], M(('two', I(2))))
            inc = [lossy + '.one']
        elif where == 'file':
            inv.classes[('d', bad + '.yml')] = G.doc([rel], [], M(('one', I(1))))
            inv.classes[('d', 'two.yml')] = G.doc([], [], M(('two', I(2))))
            inc = ['d.' + lossy]
        else:
            inc = ['top']
        inv.classes[('top.yml',)] = G.doc([], [], M(('t', I(0))))
        if where == 'nodefile':
            inv.nodes[(bad + '.yml',)] = G.doc(['top'], [], M())
        elif where == 'nodedir':
            inv.nodes[(bad, 'm.yml')] = G.doc(['.top', 'top'], [], M())
        inv.compose = rng.random() < 0.5
        inv.nodes[('n.yml',)] = G.doc(inc, [], M(('q', I(1))))
        add(inv, rng.choice([G.op_node('n'), 'all', G.op_node(lossy), G.op_node('m')]), nomodel=True, pre='u')
    # (c3) long strings with multi-byte characters that hold a malformed reference (also as include entries): the
    # parse error is an error, whatever its length
    for i in range(30 if tier == 'quick' else 800):
        inv = G.Inv()
        unit = rng.choice(['\u00e9', '\u65e5', '\U0001f600', 'a\u00e9'])
        pre = 'x' * rng.randint(0, 3) + unit * rng.randint(30, 140)
        bad = pre + rng.choice([' echo ${unterminated', ' ${}', ' ${a:${b}', ' $[ ${'])
        where = rng.choice(['param', 'param', 'nested', 'include'])
        if where == 'include':
            inv.classes[('c.yml',)] = G.doc([bad], [], M(('a', I(1))))
        elif where == 'nested':
            inv.classes[('c.yml',)] = G.doc([], [], M(('m', M(('l', L(S('ok'), S(bad)))))))
        else:
            inv.classes[('c.yml',)] = G.doc([], [], M(('script', S(bad))))
        inv.nodes[('n.yml',)] = G.doc(['c'], [], M(('q', I(1))))
        inv.universe.add('c')
        add(inv, G.op_node('n') if i % 3 else 'all', nomodel=True, pre='v')
    # (d) deep but finite input: nested references, nested containers, long include chains
    depths = [10, 64, 65, 100, 127, 128, 129, 130, 131, 1000, 20000]
    for d in depths:
        inv = G.Inv()
        inv.classes[('c.yml',)] = G.doc([], [], M(('x', S('v')), ('deep', S('${' * d + 'x' + '}' * d))))
        inv.nodes[('n.yml',)] = G.doc(['c'], [], M())
        add(inv, G.op_node('n'), show='reference nested %d deep: parameters.deep = "${"*%d + "x" + "}"*%d' % (d, d, d), nomodel=False, pre='d')
    # long loop-free reference chains, every hop passing through a container or through text: the
    # depth limit must stop them (an error), whatever their length
    for d, style in [(70, 'member'), (400, 'member'), (5000, 'member'), (300, 'list'), (300, 'embed'), (3000, 'mixed')]:
        inv = G.Inv()
        ps = [(S('start'), S('${a0}'))]
        for i in range(d):
            st = style if style != 'mixed' else ['member', 'list', 'embed'][i % 3]
            nxt = '${a%d}' % (i + 1)
            ps.append((S('a%d' % i), M(('v', S(nxt))) if st == 'member' else (L(S(nxt)) if st == 'list' else S('x' + nxt))))
        ps.append((S('a%d' % d), S('end')))
        inv.classes[('c.yml',)] = G.doc([], [], ('m', ps))
        inv.nodes[('n.yml',)] = G.doc(['c'], [], M())
        add(inv, G.op_node('n'), show='loop-free chain of %d references through %s values' % (d, style), nomodel=False, pre='h')
    for d in [10, 100, 2000]:
        inv = G.Inv()
        v = I(1)
        for _ in range(d):
            v = ('l', [v])
        inv.classes[('c.yml',)] = ('raw', 'parameters:\n  deep: ' + '[' * d + '1' + ']' * d + '\n')
        inv.nodes[('n.yml',)] = G.doc(['c'], [], M())
        add(inv, G.op_node('n'), show='YAML flow sequence nested %d deep' % d, nomodel=True, pre='y')
    for d in [10, 150] + ([3000] if tier != 'quick' else [1500]):
        inv = G.Inv()
        for i in range(d):
            inv.classes[('ch%d.yml' % i,)] = G.doc(['ch%d' % (i + 1)] if i + 1 < d else [], [], M(('t', L(I(i)))))
        inv.nodes[('n.yml',)] = G.doc(['ch0'], [], M())
        add(inv, G.op_node('n'), show='include chain of %d classes' % d, nomodel=(d > 150), pre='i')
    # (e) file-system faults between construction and rendering
    for i in range(40 if tier == 'quick' else 1000):
        inv, _, _ = G.include_graph_inv(rng, conflicts=False)
        kind = rng.choice(['delete', 'todir', 'garbage', 'truncate'])
        victim_cls = rng.random() < 0.6
        if victim_cls:
            p = rng.choice(sorted(inv.classes))
            rel = ['classes'] + list(p)
        else:
            rel = ['nodes', 'n0.yml']
        add(inv, 'fault %s %s S%s' % (kind, G.strs(rel), hx('n0')), show='%s %s after construction, then render n0: %s'
            % (kind, '/'.join(rel), G.show_inv(inv)[:300]), nomodel=True, pre='f')

    def judge(c, m, im):
        if c['nomodel']:
            return None
        return agree(m, im)

    def oracle(cases, mobs, iobs):
        fails = []
        for c in cases:
            o = iobs.get(c['id'], '')
            k = obs_kind(o)
            if k in ('panic', 'abort', 'timeout'):
                msg = unhx(o.split(' ')[1]) if len(o.split(' ')) > 1 else ''
                key = 'crash:' + classify(msg, c['show'], k)
                fails.append({'key': key, 'severity': 'fail', 'show': c['show'], 'lines': [c['line']],
                              'reason': 'rendering %s instead of returning a value or an error: %s' % (
                                  {'panic': 'panicked', 'abort': 'aborted the process', 'timeout': 'did not return'}[k], msg[:200]),
                              'model': C.describe(mobs.get(c['id'], ''))[:300], 'impl': C.describe(o)[:300], 'size': len(c['line'])})
        return fails
    rule = ('inventories run in the harness with panic capture and process-death attribution: %d AST-level fuzz inventories (tags, '
            'one key spelled twice through markers, container keys, malformed reference text, wrong shapes of classes / '
            'applications / parameters / document), %d structured inventories incl. cyclic include graphs, as many layered parameter trees with references consumed by member lookups through whatever the layers hold, %d byte-level files '
            '(invalid YAML, anchors/aliases/billion-laughs, merge keys, tags, BOM, non-UTF-8, random bytes), file and directory names that are not valid UTF-8 with relative includes inside, deep-but-finite inputs '
            '(reference nesting 10..20000, YAML nesting 10..2000, include chains 10..3000) and file-system faults between '
            'construction and rendering (delete, replace by directory, garbage, truncate); oracle: outcome is a value or an error; '
            'non-trivial = all' % (n, n // 3, nb))
    return C.standard_run(cases, rule, key_fn=lambda c, m, i, r: 'model-impl-differ', judge=judge, extra_oracle=oracle)


def classify(msg, show, kind):
    if 'Tagged YAML' in msg:
        return 'tagged-yaml-value'
    if 'called `Result::unwrap()`' in msg and 'constant key' in msg:
        return 'key-spelled-twice-with-constant-marker'
    if 'as JSON key' in msg:
        return 'container-key-in-embedded-mapping'
    if 'raw_string() implemented' in msg:
        return 'container-key-as-path-segment'
    if 'stack' in msg and 'reference nested' in show:
        return 'stack-overflow:deep-reference-nesting'
    if 'stack' in msg and 'include chain' in show:
        return 'stack-overflow:long-include-chain'
    if 'stack' in msg:
        return 'stack-overflow'
    if 'not yet implemented' in msg:
        return 'todo'
    return kind

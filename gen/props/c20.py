# C20: configuration entry points agree and stay self-consistent.
import os
import re
from common import *  # noqa

INVS = ['.', 'inv', './inv', 'inv/', 'a/../inv', './a/./inv', 'inv//', 'x/y']
DIRS = ['nodes', 'classes', ' n ', 'n', 'c/d', 'nn/', './m', '1', 'true', 'no', 'a b', 'null', 'targets', 'k#1', "it's", '/abs/n', '/abs/c/d', '/srv']
# (each pattern is a regular expression of its own: '(a' and 'b)' are both rejected although their alternation would
#  compile, and the flag of '(?i)nope' does not extend to the patterns listed after it)
PATS = ['.*', '^zz\\.', 'gone$', 'c[0-9]+', '^$', 'a|b', 'nope', '(', '[a', '*x', '', '(a', 'b)', '(?i)nope', '(?i)^zz']
BAD = ['(', '[a', '*x', '(a', 'b)']
PROBES = ['zz.missing', 'nope', 'gone', 'c1', 'ab', 'd1.gone', 'x', 'GONE', 'NOPE', 'C1', 'ZZ.top']


def match_pairs():
    out = []
    for p in PATS:
        if p in BAD:
            continue
        for n in PROBES:
            if re.search(p, n):
                out += [p, n]
    return out


def strs(l):
    return '%d%s' % (len(l), ''.join(' S' + hx(x) for x in l))


def opt(s):
    return '-' if s is None else 'S' + hx(s)


def optb(b):
    return '-' if b is None else ('T' if b else 'F')


def entries(es):
    return '%d%s' % (len(es), ''.join(' S%s %s' % (hx(k), enc(v)) for k, v in es))


def header():
    return 'config %s %s %s' % (strs(BAD), strs(match_pairs()), strs(PROBES))


def rand_entries(rng, valid=False):
    es = []
    keys = ['nodes_uri', 'classes_uri', 'ignore_class_notfound', 'ignore_class_notfound_regexp', 'compose_node_name',
            'reclass_rs_compat_flags', 'storage_type', 'pretty_print', 'unknown_key']
    for k in rng.sample(keys, rng.randint(0, 5)):
        wrong = (not valid) and rng.random() < 0.2
        if k in ('nodes_uri', 'classes_uri'):
            v = S(rng.choice(DIRS[:6] if valid else DIRS))
            if not valid and rng.random() < 0.12:
                v = rng.choice([I(1), I(20), B(True)])      # a directory written as another YAML scalar: its text
            if k == 'classes_uri' and any(kk == 'nodes_uri' and vv == v for kk, vv in es):
                continue
        elif k in ('ignore_class_notfound', 'compose_node_name'):
            v = rng.choice([S('true'), I(1), N, L(B(True))]) if wrong else B(rng.random() < 0.5)
        elif k == 'ignore_class_notfound_regexp':
            if wrong:
                v = rng.choice([S('.*'), B(True), L(S('.*'), I(1)), M(('a', S('b'))), N, N])
            else:
                pool = [p for p in PATS if p not in BAD] if valid else PATS
                v = ('l', [S(rng.choice(pool)) for _ in range(rng.randint(0, 3))])
        elif k == 'reclass_rs_compat_flags':
            v = rng.choice([S('x'), L(I(1)), N]) if wrong else ('l', [S(rng.choice(['compose-node-name-literal-dots', 'ComposeNodeNameLiteralDots', 'bogus-flag']))
                                                                  for _ in range(rng.randint(0, 2))])
        else:
            v = rng.choice([S('yaml_fs'), B(True), I(3), L(S('a'))])
        es.append((k, v))
    if rng.random() < 0.2:
        # an unknown entry whose key is not a string (the harness writes the text after U+F8FE as the YAML key of the
        # config file; for the dict entry point and for the model it is an unknown string key): ignored like any other
        es.insert(rng.randint(0, len(es)), ('\uf8fe' + rng.choice(['1', '1.5', 'true', '~', '[a]', '{a: 1, b: 2}']), S('legacy')))
    return es


def parse_states(o):
    """'ok | ok <state> | err <state> ...' -> list of (ok, state dict | None)"""
    out = []
    for part in o.split(' | ')[1:]:
        toks = part.split(' ')
        ok = toks[0] == 'ok'
        if len(toks) < 3 or toks[1] == '-' or toks[1] == 'NOTVALUEERROR':
            out.append((ok, None, part))
            continue
        inv, nodes, classes = [unhx(t[1:]) for t in toks[1:4]]
        flags = toks[4]
        n = int(toks[5])
        reported = [unhx(t[1:]) for t in toks[6:6 + n]]
        bits = toks[6 + n][1:]
        out.append((ok, {'inv': inv, 'nodes': nodes, 'classes': classes, 'ignore': flags[0] == 'T', 'compose': flags[1] == 'T',
                         'dots': flags[2] == 'T', 'reported': reported, 'bits': bits}, part))
    return out


def expected_bits(st):
    bits = ''
    for n in PROBES:
        m = False
        for p in st['reported']:
            if p in BAD:
                return None
            if re.search(p, n):
                m = True
        bits += 'T' if (st['ignore'] and m) else 'F'
    return bits


def run(tier, rng, C):
    cases = []
    n = 700 if tier == 'quick' else 30000
    # histories on one instance
    for i in range(n):
        inv0 = rng.choice(INVS + [None, None])
        # (without an inventory path both directories must be given: the constructor fails otherwise and there
        # is no instance to go on with)
        ops = ['new %s %s %s %s' % (opt(inv0), opt(rng.choice(([None] if inv0 is not None else []) + ['nodes', 'n'])),
                                    opt(rng.choice(([None] if inv0 is not None else []) + ['classes', 'c/d'])),
                                    optb(rng.choice([None, True, False])))]
        desc = [ops[0]]
        for _ in range(rng.randint(1, 8)):
            r = rng.random()
            if r < 0.3:
                ps = [rng.choice(PATS) for _ in range(rng.randint(0, 3))]
                ops.append('regexp ' + strs(ps))
                desc.append('set_ignore_class_notfound_regexp(%r)' % ps)
            elif r < 0.55:
                es = rand_entries(rng)
                ops.append('load S%s %s' % (hx('reclass-config.yml'), entries(es)))
                desc.append('load_from_file(%s)' % ', '.join('%s: %s' % (k, show(v)) for k, v in es))
            elif r < 0.7:
                b = rng.random() < 0.6
                ops.append('ignore ' + ('T' if b else 'F'))
                desc.append('ignore_class_notfound = %s' % b)
            elif r < 0.8:
                b = rng.random() < 0.5
                ops.append('compose ' + ('T' if b else 'F'))
                desc.append('compose_node_name = %s' % b)
            else:
                o = rng.choice(['setflag', 'unsetflag', 'clearflags'])
                ops.append(o)
                desc.append(o)
        cid = C.case_id('h', i)
        cases.append({'id': cid, 'line': '%s %s %s' % (cid, header(), ' '.join(ops)), 'show': ' ; '.join(desc),
                      'nontrivial': len(ops) >= 3, 'kind': 'history'})
    # entry points: the same option set as constructor arguments (+ setters), as a config file, as a dict
    m = 250 if tier == 'quick' else 8000
    for i in range(m):
        inv = rng.choice(INVS)
        nodes, classes = rng.sample(DIRS, 2)
        ign = rng.random() < 0.5
        compose = rng.random() < 0.5
        dots = rng.random() < 0.3
        pats = [rng.choice([p for p in PATS if p not in BAD]) for _ in range(rng.randint(0, 3))]
        ctor = ['new %s %s %s %s' % (opt(inv), opt(nodes), opt(classes), optb(ign)), 'regexp ' + strs(pats),
                'compose ' + ('T' if compose else 'F')] + (['setflag'] if dots else [])
        es = [('nodes_uri', S(nodes)), ('classes_uri', S(classes)), ('ignore_class_notfound', B(ign)),
              ('ignore_class_notfound_regexp', ('l', [S(p) for p in pats])), ('compose_node_name', B(compose)),
              ('reclass_rs_compat_flags', ('l', [S('compose-node-name-literal-dots')] if dots else [])),
              ('storage_type', S('yaml_fs'))]
        rng.shuffle(es)
        filec = ['new %s - - -' % opt(inv), 'load S%s %s' % (hx('reclass-config.yml'), entries(es))]
        dictc = ['dict S%s %s' % (hx(inv), entries(es))]
        showbase = 'options inventory=%r nodes=%r classes=%r ignore=%s regexp=%r compose=%s literal_dots=%s' % (
            inv, nodes, classes, ign, pats, compose, dots)
        ids = []
        for tag, ops in (('c', ctor), ('f', filec), ('d', dictc)):
            cid = '%s%06d' % (tag, i)
            ids.append(cid)
            cases.append({'id': cid, 'line': '%s %s %s' % (cid, header(), ' '.join(ops)),
                          'show': showbase + ' given as ' + {'c': 'constructor arguments + setters', 'f': 'config file', 'd': 'dict (Python from_dict)'}[tag],
                          'nontrivial': True, 'kind': 'entry', 'group': ids})
    # wrong types / bad patterns / unknown keys through file and dict
    for i in range(150 if tier == 'quick' else 5000):
        es = rand_entries(rng)
        via = rng.choice(['load', 'dict'])
        ops = ['new S%s - - -' % hx('inv')] + (['load S%s %s' % (hx('cfg.yml'), entries(es))] if via == 'load' else ['dict S%s %s' % (hx('inv'), entries(es))])
        cid = C.case_id('w', i)
        cases.append({'id': cid, 'line': '%s %s %s' % (cid, header(), ' '.join(ops)), 'show': '%s(%s)' % (via, ', '.join('%s: %s' % (k, show(v)) for k, v in es)),
                      'nontrivial': True, 'kind': 'types', 'entries': es})

    def normpath(p):
        q = os.path.normpath(p)
        return q

    def oracle(cases, mobs, iobs):
        fails = []

        def fail(c, key, why, o):
            fails.append({'key': key, 'severity': 'fail', 'show': c['show'], 'lines': [c['line']], 'reason': why,
                          'model': C.describe(mobs.get(c['id'], ''))[:400], 'impl': C.describe(o)[:400], 'size': len(c['line'])})
        for c in cases:
            o = iobs.get(c['id'], '')
            if not o.startswith('ok'):
                continue
            sts = parse_states(o)
            for j, (ok, st, raw) in enumerate(sts):
                if 'NOTVALUEERROR' in raw:
                    fail(c, 'config:not-valueerror', 'a configuration failure surfaced as something other than ValueError: ' + raw[:200], o)
                if st is None:
                    continue
                eb = expected_bits(st)
                if eb is None:
                    fail(c, 'config:reported-pattern-not-compiled', 'after call %d the instance reports patterns %r, one of which does '
                         'not compile, so it cannot be what the instance applies' % (j + 1, st['reported']), o)
                    break
                if eb != st['bits']:
                    fail(c, 'config:reported-vs-behaviour', 'after call %d the instance reports ignore=%s patterns=%r but ignores missing '
                         'classes %s (the reported settings give %s over %s)' % (j + 1, st['ignore'], st['reported'], st['bits'], eb, PROBES), o)
                    break
            if c['kind'] == 'types' and len(sts) >= 2:
                es = dict(c['entries'])
                must_fail = False
                for k in ('ignore_class_notfound', 'compose_node_name'):
                    if k in es and es[k][0] != 'b':
                        must_fail = True
                v = es.get('ignore_class_notfound_regexp')
                if v is not None and (v[0] != 'l' or any(x[0] != 's' for x in v[1]) or any(x[1] in BAD for x in v[1])):
                    must_fail = True
                v = es.get('reclass_rs_compat_flags')
                if v is not None and (v[0] != 'l' or any(x[0] != 's' for x in v[1])):
                    must_fail = True
                if must_fail and sts[1][0]:
                    fail(c, 'config:wrong-type-accepted', 'an option of the wrong type or a pattern that does not compile was accepted', o)
                if not must_fail and not sts[1][0]:
                    fail(c, 'config:valid-options-rejected', 'valid options (with unknown keys) were rejected', o)
            if c['kind'] == 'entry' and c['id'].startswith('d'):
                finals = []
                for cid in c['group']:
                    oo = iobs.get(cid, '')
                    s2 = parse_states(oo) if oo.startswith('ok') else []
                    finals.append(s2[-1] if s2 else (False, None, oo))
                if not all(f[0] and f[1] for f in finals):
                    fail(c, 'config:entry-point-rejects', 'an entry point rejects the option set: %s' % [f[2][:80] for f in finals], o)
                    continue
                ref = finals[0][1]
                for tag, f in zip(('file', 'dict'), finals[1:]):
                    st = f[1]
                    diffs = []
                    for k in ('nodes', 'classes'):
                        if normpath(st[k]) != normpath(ref[k]):
                            diffs.append('%s_path %r vs %r' % (k, st[k], ref[k]))
                    for k in ('ignore', 'compose', 'dots', 'reported', 'bits'):
                        if st[k] != ref[k]:
                            diffs.append('%s %r vs %r' % (k, st[k], ref[k]))
                    if diffs:
                        fail(c, 'config:entry-points-differ', 'the %s entry point gives a different configuration than constructor '
                             'arguments: %s' % (tag, '; '.join(diffs)), o)
                        break
        return fails
    rule = ('%d histories (constructor, then 1-8 calls: pattern setter incl. patterns that do not compile, load_from_file with '
            'random valid/wrong-typed/unknown options, flag and compat-flag changes), %d option sets given through the three entry '
            'points (constructor+setters, config file, Python Config.from_dict), %d wrong-type/unknown-key sets; observation after '
            'every call: reported settings + is_class_ignored on %d probe names; oracles: reported vs behaviour after every call, '
            'entry points equivalent (paths after normalisation), wrong types rejected, unknown keys ignored; non-trivial = >= 2 '
            'calls after construction' % (n, m, 150 if tier == 'quick' else 5000, len(PROBES)))
    return C.standard_run(cases, rule, key_fn=lambda c, m_, i, r: 'model-impl-differ', extra_oracle=oracle)

# C13: inventory indexes are the exact inverse of per-node lists.
import re
import invgen as G
from common import *  # noqa


def multi_node_inv(rng, fail=0.0):
    inv, names, incl = G.include_graph_inv(rng, nclasses=rng.randint(2, 6), conflicts=False, refs=0.1)
    inv.nodes = {}
    odd = []
    if rng.random() < 0.3:
        # classes whose names start with a marker character: ordinary class names
        for nm in rng.sample(['~legacy', '=pinned', '~', 'a~b'], rng.randint(1, 2)):
            inv.classes[(nm + '.yml',)] = G.doc([], [rng.choice(['web', 'oddapp'])], ('m', [(S('trace'), L(S(nm)))]))
            inv.universe.add(nm)
            odd.append(nm)
    nn = rng.randint(2, 10)
    failing = set()
    pool = ['web', 'web-1', 'web.1', 'a', 'a.1', 'a-b', 'b', 'Z', 'z', 'n10', 'n9', 'n09', '_x', 'x_', 'é', 'aa', 'a_']
    style = rng.choice(['plain', 'pool', 'nested', 'composed'])
    if style == 'composed':
        inv.compose = True
    node_names = rng.sample(pool, min(nn, len(pool)))
    dirs = ['', 'a', 'b', 'zz', 'a/c']
    for i in range(nn):
        roots = [n for n in names if rng.random() < 0.4]
        rng.shuffle(roots)
        apps = [rng.choice(['web', 'db', 'mon', '~web', '~a1', 'a1']) for _ in range(rng.randint(0, 3))]
        # names shared between a node's class list and its application list (the two indexes are independent)
        apps += [rng.choice(['sel'] + list(names)) for _ in range(rng.choice([0, 0, 1, 2]))]
        rng.shuffle(apps)
        params = [(S('trace'), L(S('NODE')))]
        cl = ['sel'] + roots
        if rng.random() < 0.15:
            cl = []            # a node that includes no class (its applications still count)
        if odd and rng.random() < 0.5:
            cl.insert(rng.randint(0, len(cl)), rng.choice(odd))      # class names that look like markers
        if style == 'plain':
            path, node_name = ('n%02d.yml' % i,), 'n%02d' % i
        elif style == 'pool':
            path, node_name = (node_names[i] + '.yml',), node_names[i]
        else:
            d = rng.choice(dirs)
            path = tuple(x for x in d.split('/') if x) + (node_names[i] + '.yml',)
            node_name = '.'.join(path)[:-4] if style == 'composed' else node_names[i]
        if rng.random() < fail:
            failing.add(node_name)
            r = rng.random()
            if r < 0.4:
                cl.append('no.such.class')
            elif r < 0.75:
                params.append((S('loop'), S('${loop}')))
            else:
                params.append((S('bad'), S(rng.choice(['${unclosed', 'x-${a:${b}', '${}']))))     # a reference that does not parse
        inv.nodes[path] = G.doc(cl, apps, ('m', params))
        if node_name in failing and rng.random() < 0.4:
            # the node's own file cannot be loaded: wrong shape of a field, not a mapping, or no YAML at all
            inv.nodes[path] = rng.choice([
                ('m', [(S('classes'), S('sel')), (S('parameters'), ('m', params))]),
                ('m', [(S('classes'), ('l', [S('sel')])), (S('applications'), S('web'))]),
                ('m', [(S('parameters'), ('l', [I(1)]))]),
                ('l', [S('sel')]),
                ('raw', 'classes: [sel'),
                ('raw', 'parameters:\n  a: {b\n')])
    return inv, failing


def run(tier, rng, C):
    n = 150 if tier == 'quick' else 8000
    cases, meta = [], {}
    for i in range(n):
        inv, failing = multi_node_inv(rng, fail=0.0 if i % 3 else 0.25)
        cid = C.case_id('i', i)
        cases.append({'id': cid, 'line': G.inv_line(cid, inv, 'all'), 'show': G.show_inv(inv, 'all'), 'nontrivial': True})
        meta[cid] = (inv, failing)

    # big inventories with one or two failing nodes among many healthy ones (the workers run in parallel: the error
    # must name a node that fails, not one that merely was not finished)
    for i in range(8 if tier == 'quick' else 120):
        inv = G.Inv()
        inv.classes[('c.yml',)] = G.doc([], ['app'], ('m', [(S('v'), S('${_reclass_:name:short}'))]))
        nn = rng.randint(120, 220)
        failing = set(rng.sample(['node%03d' % j for j in range(nn)], rng.randint(1, 2)))
        for j in range(nn):
            nm = 'node%03d' % j
            inv.nodes[(nm + '.yml',)] = G.doc(['c'] + (['no.such.class'] if nm in failing else []), [], ('m', [(S('j'), I(j))]))
        inv.universe.update(['c', 'no.such.class'])
        cid = C.case_id('b', i)
        cases.append({'id': cid, 'line': G.inv_line(cid, inv, 'all'), 'show': 'inventory of %d nodes, failing: %s' % (nn, sorted(failing)), 'nontrivial': True})
        meta[cid] = (inv, failing)

    # a failing node whose error text is long and not ASCII (a missing class with a long multi-byte name): the
    # inventory error still names the node
    for i in range(12 if tier == 'quick' else 200):
        inv = G.Inv()
        inv.classes[('c.yml',)] = G.doc([], ['app'], ('m', [(S('v'), I(1))]))
        unit = rng.choice(['\u65e5', '\u00e4\u00f6\u00fc', 'a\u20ac', '\U0001f600'])
        long_name = rng.choice(['', 'kunden.', 'x']) + unit * rng.randint(40, 130)
        inv.nodes[('ok1.yml',)] = G.doc(['c'], [], ('m', []))
        inv.nodes[('broken.yml',)] = G.doc(['c', long_name], [], ('m', []))
        inv.nodes[('ok2.yml',)] = G.doc(['c'], ['own'], ('m', []))
        inv.universe.update(['c', long_name])
        cid = C.case_id('u', i)
        cases.append({'id': cid, 'line': G.inv_line(cid, inv, 'all'), 'show': 'node broken includes a missing class with a name of %d multi-byte characters' % (len(long_name)), 'nontrivial': True})
        meta[cid] = (inv, {'broken'})

    # two node names for one file (a node file that is a symbolic link to another node file): two nodes
    for i in range(10 if tier == 'quick' else 200):
        inv = G.Inv()
        inv.classes[('c.yml',)] = G.doc([], ['app'], ('m', [(S('v'), S('${_reclass_:name:short}'))]))
        ndoc = G.doc(['c'], ['web'], ('m', [(S('j'), I(i))]))
        inv.nodes[('web.yml',)] = ndoc
        inv.nodes[('db.yml',)] = G.doc(['c'], ['db'], ('m', []))
        for a in rng.sample(['web-alias', 'aaa', 'zz.alias'], rng.randint(1, 2)):
            inv.nodes[(a + '.yml',)] = ('linkfile', 'web.yml', ndoc)
        inv.universe.update(['c'])
        cid = C.case_id('y', i)
        cases.append({'id': cid, 'line': G.inv_line(cid, inv, 'all'), 'show': G.show_inv(inv, 'all'), 'nontrivial': True})
        meta[cid] = (inv, set())

    # the edge sizes: no node at all (classes only), one node, one node per worker thread +- 1
    for i, nn in enumerate([0, 0, 1, 15, 16, 17, 33]):
        inv = G.Inv()
        inv.classes[('c.yml',)] = G.doc([], ['app'], ('m', [(S('v'), I(1))]))
        if i == 1:
            inv.classes[('d', 'e.yml')] = G.doc(['c'], [], ('m', []))
        for j in range(nn):
            inv.nodes[('e%02d.yml' % j,)] = G.doc(['c'], ['own%d' % (j % 3)], ('m', [(S('j'), I(j))]))
        inv.universe.update(['c', 'd.e'])
        cid = C.case_id('e', i)
        cases.append({'id': cid, 'line': G.inv_line(cid, inv, 'all'), 'show': 'inventory of %d nodes' % nn, 'nontrivial': True})
        meta[cid] = (inv, set())

    def oracle(cases, mobs, iobs):
        fails = []
        for c in cases:
            inv, failing = meta[c['id']]
            o = iobs.get(c['id'], '')
            bad = None
            k = obs_kind(o)
            if failing:
                msg = unhx(o.split(' ')[1]) if k == 'err' else ''
                if k != 'err':
                    bad = 'nodes %s fail but the inventory rendered' % sorted(failing)
                elif not any(re.search(r'(?<![A-Za-z0-9_.~-])' + re.escape(f) + r'(?![A-Za-z0-9_~-])', msg) for f in failing):
                    bad = 'inventory error names no failing node (%s): %r' % (sorted(failing), msg[:200])
            elif k != 'ok':
                bad = 'no node fails but the inventory does: ' + C.describe(o)[:300]
            else:
                head, *nodes = o[3:].split(' | ')
                apart, rest = head.split(' C', 1)
                cpart, npart = rest.split(' N ', 1)

                def parse_ix(t):
                    toks = [x for x in t.split(' ') if x][1:] if t.startswith('A') else [x for x in t.split(' ') if x]
                    d, j = {}, 0
                    while j < len(toks):
                        kk = unhx(toks[j][1:])
                        cnt = int(toks[j + 1])
                        d[kk] = [unhx(x[1:]) for x in toks[j + 2:j + 2 + cnt]]
                        j += 2 + cnt
                    return d
                ai, ci = parse_ix(apart), parse_ix(cpart)
                wa, wc = {}, {}
                got_nodes = []
                for nd in nodes:
                    toks = nd.split(' ')
                    name = unhx(toks[0][1:])
                    got_nodes.append(name)
                    ia = toks.index('A')
                    na = int(toks[ia + 1])
                    apps = [unhx(x[1:]) for x in toks[ia + 2:ia + 2 + na]]
                    ic = toks.index('C', ia)
                    nc = int(toks[ic + 1])
                    cls = [unhx(x[1:]) for x in toks[ic + 2:ic + 2 + nc]]
                    for a in apps:
                        wa.setdefault(a, []).append(name)
                    for cl in cls:
                        wc.setdefault(cl, []).append(name)
                wa = {k2: sorted(v) for k2, v in wa.items()}
                wc = {k2: sorted(v) for k2, v in wc.items()}
                want_nodes = sorted(('.'.join(p)[:-4] if inv.compose else p[-1][:-4]) for p in inv.nodes)
                if got_nodes != want_nodes:
                    bad = 'inventory nodes %s, discovered nodes %s' % (got_nodes, want_nodes)
                elif ai != wa:
                    bad = 'application index %s is not the inverse %s of the per-node lists' % (ai, wa)
                elif ci != wc:
                    bad = 'class index %s is not the inverse %s of the per-node lists' % (ci, wc)
            if bad:
                fails.append({'key': 'inventory-index', 'severity': 'fail', 'show': c['show'], 'lines': [c['line']], 'reason': bad,
                              'model': C.describe(mobs.get(c['id'], ''))[:400], 'impl': C.describe(o)[:400], 'size': len(c['line'])})
        return fails
    rule = ('%d inventories with 2-10 nodes over shared class graphs, overlapping class/application sets with negations, application names that are also class names of the same node, nodes without classes, one third '
            'with a random subset of failing nodes (missing class, reference loop, malformed reference, a node file that cannot be loaded: wrong field shape, not a mapping, invalid YAML); full render through the index accessor hook; '
            'oracle: indexes = sorted exact inverse of the implementation\'s own per-node lists, nodes = discovered nodes, fails iff '
            'some node fails and names one; plus inventories of 0, 1, 15-17 and 33 nodes; plus failing nodes with long multi-byte error texts; non-trivial = all' % n)
    return C.standard_run(cases, rule, key_fn=lambda c, m, i, r: 'model-impl-differ', extra_oracle=oracle)

# C19: Python sees native objects equal to the rendered data (embedded CPython).
import invgen as G
import valgen as V
from common import *  # noqa


def rich_value(rng, depth):
    r = rng.random()
    if depth > 0 and r < 0.3:
        ks = [S(k) for k in rng.sample(['a', 'b', 'é', '', 'k k', '1'], rng.randint(0, 3))]
        if rng.random() < 0.35:
            ks += rng.sample([I(1), B(True), N, I(0), B(False), I(2**63), I(-7)], rng.randint(1, 3))
        if rng.random() < 0.05:
            ks.append(L(I(1)))            # unhashable in Python
        if rng.random() < 0.12:
            # keys written with so many markers that one is left in the rendered key
            ks.append(S(rng.choice(['=====pinned', '~~~~~tilde', '=~=~=mix', '======six', '~=~=~=~w'])))
        seen, es = set(), []
        for k in ks:
            if repr(k) in seen:
                continue
            seen.add(repr(k))
            es.append((k, rich_value(rng, depth - 1)))
        if rng.random() < 0.15:
            # sibling collections with the same entries in another order: each keeps its own order
            ents = [(S(x), I(j)) for j, x in enumerate(rng.sample(['x', 'y', 'z', 'w'], rng.randint(2, 4)))]
            es.append((S('first'), ('m', ents)))
            es.append((S('second'), ('m', list(reversed(ents)))))
            es.append((S('third'), ('l', [('m', ents), ('m', list(reversed(ents)))])))
        return ('m', es)
    if depth > 0 and r < 0.5:
        return ('l', [rich_value(rng, depth - 1) for _ in range(rng.randint(0, 3))])
    if r < 0.6:
        return I(rng.choice(V.INTS))
    if r < 0.68 and FLOATS:
        return ('f', rng.choice(FLOATS))
    if r < 0.75:
        return S(rng.choice(['${x}', 'v=${x}', '${m}']))
    return V.scalar(rng)


def conv(v):
    """Rust-side canonical (python structure) -> what Python must see"""
    if v is None or v is True or v is False:
        return v
    t = v[0]
    if t == 'int':
        return v
    if t == 'float':
        return ('float',)
    if t in ('str', 'lit'):
        return ('pystr', v[1])
    if t == 'seq':
        return ('seq', [conv(x) for x in v[1]])
    if t == 'map':
        return ('map', [(conv(k), conv(x)) for k, x, _ in v[1]])
    return ('?', v)


def pyconv(v):
    if v is None or v is True or v is False:
        return v
    t = v[0]
    if t == 'int':
        return v
    if t == 'float':
        return ('float',)
    if t == 'lit':
        return ('pystr', v[1])
    if t == 'seq':
        return ('seq', [pyconv(x) for x in v[1]])
    if t == 'map':
        return ('map', [(pyconv(k), pyconv(x)) for k, x, _ in v[1]])
    return ('?', v)


def has_collision(v):
    if v is None or v is True or v is False:
        return False
    if v[0] == 'map':
        keys = set()
        for k, x, _ in v[1]:
            kk = k
            if k is True:
                kk = ('int', 1)
            elif k is False:
                kk = ('int', 0)
            if repr(kk) in keys:
                return True
            keys.add(repr(kk))
            if has_collision(x):
                return True
    if v[0] == 'seq':
        return any(has_collision(x) for x in v[1])
    return False


def has_container_key(v):
    if v is None or v is True or v is False:
        return False
    if v[0] == 'map':
        return any((k not in (None, True, False) and k[0] in ('seq', 'map')) or has_container_key(x) for k, x, _ in v[1])
    if v[0] == 'seq':
        return any(has_container_key(x) for x in v[1])
    return False


def run(tier, rng, C):
    n = 350 if tier == 'quick' else 15000
    cases = []
    for i in range(n):
        inv = G.Inv()
        params = [(S('x'), rng.choice([I(3), S('ex'), B(True)])), (S('m'), M(('q', I(1)))), (S('v'), rich_value(rng, 3)),
                  (S('w'), rich_value(rng, 2))]
        if i % 7 == 0:
            # failing render / failing load: a reference that cannot be resolved, a tagged value or a mapping that
            # rewrites its own constant key -- as a parameter value and below list elements
            params.append((S('bad'), rng.choice([S('${nope}'), S('${bad}'), S('${x:y}'),
                                                 ('t', '!secret', S('foo')), ('l', [('t', '!secret', S('foo'))]),
                                                 ('l', [I(1), ('m', [(S('=foo'), I(1)), (S('foo'), I(2))])]),
                                                 ('m', [(S('deep'), ('l', [('l', [('t', '!x', I(1))])]))])])))
        inv.classes[('c.yml',)] = G.doc([], ['app1', '~app2'], ('m', params[:3]))
        cls = ['c'] + (['missing.cls'] if i % 11 == 0 else [])
        inv.nodes[('n.yml',)] = G.doc(cls, ['app2'], ('m', params[3:]))
        inv.universe.add('missing.cls')
        cid = C.case_id('y', i)
        op = ('pynode S' + hx('n' if i % 13 else rng.choice(['ghost', '', 'n.yml', 'N']))) if i % 5 else 'pyinv'    # also: a name that is not a node
        cases.append({'id': cid, 'line': G.inv_line(cid, inv, op), 'show': G.show_inv(inv, op.split(' ')[0]), 'nontrivial': True,
                      'op': op.split(' ')[0]})

    def judge(c, m, im):
        if c['op'] == 'pyinv':
            return None
        # compare the model's Python objects with the implementation's (floats masked)
        pyside = im.split(' ## ')[0]
        if m.startswith('ok P '):
            if not pyside.startswith('ok P '):
                return 'model: conversion succeeds, impl: ' + pyside[:200]
            import re as _re
            ip = pyside[5:].split(' || ')[0]
            ip = _re.sub(r'D[0-9a-f]+', 'D?', ip)
            mp = m[5:].split(' C ')[0]
            return None if ip == mp else 'Python objects differ from the model: %s vs %s' % (ip[:200], mp[:200])
        if m.startswith('raise TypeError'):
            return None if 'TypeError' in pyside else 'model: TypeError (unhashable key), impl: ' + pyside[:200]
        if m.startswith('err'):
            return None if pyside.startswith('raise ValueError') else 'model: render error, impl: ' + pyside[:200]
        if m.startswith('panic'):
            return None if 'Panic' in pyside else 'model: panic, impl ' + pyside[:100]
        return 'invalid:model ' + m[:100]

    def oracle(cases, mobs, iobs):
        fails = []

        def fail(c, key, why, o):
            fails.append({'key': key, 'severity': 'fail', 'show': c['show'], 'lines': [c['line']], 'reason': why,
                          'model': (mobs.get(c['id'], ''))[:300], 'impl': o[:600], 'size': len(c['line'])})
        for c in cases:
            o = iobs.get(c['id'], '')
            if c['op'] == 'pyinv':
                o, _, rusterrs = o.partition(' ## errs')
                if o.startswith('raise ValueError'):
                    # the ValueError of a failing inventory carries the message of a failing node's render
                    toks = rusterrs.split()
                    msgs = [unhx(t[1:]) for t in toks[1::2]]
                    text = unhx(o.split(' ')[2]) if len(o.split(' ')) > 2 else ''
                    if msgs and not any(mm in text for mm in msgs):
                        fail(c, 'py:message-lost', 'the ValueError of the failing inventory (%r) does not carry the underlying message of any failing node (%r)'
                             % (text[:150], msgs[0][:150]), o)
                if o.startswith('raise '):
                    if o.startswith('raise TypeError') and 'unhashable' in unhx(o.split(' ')[2]):
                        fail(c, 'py:unhashable-key', 'a mapping with a list/mapping key cannot be converted to a dict (TypeError from as_dict())', o)
                    elif not o.startswith('raise ValueError'):
                        fail(c, 'py:not-valueerror', 'inventory failure surfaces as ' + o[:80], o)
                    continue
                if not o.startswith('ok '):
                    fail(c, 'py:inventory', 'unexpected: ' + o[:200], o)
                    continue
                parts = dict(p.split(' ', 1) if ' ' in p else (p, '') for p in o[3:].split(' || '))
                if parts.get('A') != parts.get('DA') or parts.get('C') != parts.get('DC') or parts.get('N') != parts.get('DN') or parts.get('SAME') != 'T':
                    fail(c, 'py:as_dict-differs', 'Inventory.as_dict() differs from the attribute views', o)
                elif parts.get('AGAIN') != 'T':
                    fail(c, 'py:view-not-fresh', 'after Python edited the dicts it received, the views of the inventory no longer show the rendered data', o)
                else:
                    ikeys = [unhx(t[1:]) for t in parts.get('KEYS', '').split(' ')[1:]]
                    imissing = [k for k in ('__reclass__', 'applications', 'classes', 'nodes') if k not in ikeys]
                    if imissing:
                        fail(c, 'py:as_dict-differs', 'Inventory.as_dict() lacks %s' % imissing, o)
                continue
            if ' ## ' not in o:
                # the call did not come back with a Python-side and a Rust-side observation: a panic (PanicException),
                # an abort or a hang instead of a value or a ValueError
                fail(c, 'py:panic', 'the Python call ended in %s instead of a value or a ValueError' % C.describe(o)[:200], o)
                continue
            pyside, rust = o.split(' ## ')
            if rust.startswith('err '):
                msg = unhx(rust.split(' ')[1])
                if not pyside.startswith('raise ValueError'):
                    fail(c, 'py:not-valueerror', 'render failure surfaces as %s instead of ValueError' % pyside[:80], o)
                elif msg not in unhx(pyside.split(' ')[2]):
                    fail(c, 'py:message-lost', 'ValueError does not carry the underlying message %r' % msg[:100], o)
                continue
            rv = C.parse_canon(rust[3:].split(' '))[0]
            if pyside.startswith('conv raise'):
                if has_container_key(rv) and 'TypeError' in pyside:
                    fail(c, 'py:unhashable-key', 'a mapping with a list/mapping key cannot be converted to a dict (TypeError)', o)
                else:
                    fail(c, 'py:conversion-fails', 'conversion of rendered data raises ' + pyside[:120], o)
                continue
            if not pyside.startswith('ok P '):
                fail(c, 'py:unexpected', pyside[:200], o)
                continue
            parts = dict(p.split(' ', 1) if ' ' in p else (p, '') for p in pyside[3:].split(' || '))
            pv = C.parse_canon(parts['P'].split(' '))[0]
            if pyconv(pv) != conv(rv):
                if has_collision(rv):
                    fail(c, 'py:dict-key-collision', 'keys that are equal in Python (True/1, False/0) collapse into one dict entry', o)
                else:
                    fail(c, 'py:data-differs', 'Python objects %r differ from the rendered data %r' % (pyconv(pv), conv(rv)), o)
                continue
            if parts['D'] != parts['P'] or parts['C'] != parts['DC'] or parts['A'] != parts['DA']:
                fail(c, 'py:as_dict-differs', 'NodeInfo.as_dict() differs from the attribute views', o)
            if parts.get('AGAIN') != 'T':
                fail(c, 'py:view-not-fresh', 'after Python edited the dicts it received, parameters / as_dict() no longer show the rendered data', o)
            keys = [unhx(t[1:]) for t in parts.get('KEYS', '').split(' ')[1:]]
            missing = [k for k in ('__reclass__', 'applications', 'classes', 'environment', 'exports', 'parameters') if k not in keys]
            if missing:
                fail(c, 'py:as_dict-differs', 'NodeInfo.as_dict() lacks %s, which the attribute views have' % missing, o)
            meta = parts['META'].split(' ')[1:]
            dmeta = parts['DMETA'].split(' ')[1:]
            if meta != dmeta[:4] or dmeta[4] != meta[3]:
                fail(c, 'py:as_dict-differs', 'metadata in as_dict() differs from __reclass__', o)
        return fails
    rule = ('%d inventories rendered through embedded CPython (Reclass.nodeinfo(n): parameters, as_dict(), classes, applications, '
            '__reclass__; Reclass.inventory(): indexes, nodes, as_dict()): parameter trees with every value kind, 64-bit extreme '
            'integers, floats, non-string keys (bool/int/null; 5%% list keys), nesting <= 3, references; one seventh fail to render '
            '(must raise ValueError carrying the message); oracles: Python objects equal the Rust-side rendered Mapping (types '
            'exact, key order), as_dict views equal attribute views; model comparison of the Python object tree; non-trivial = all' % n)
    return C.standard_run(cases, rule, key_fn=lambda c, m, i, r: 'model-impl-differ', judge=judge, extra_oracle=oracle)

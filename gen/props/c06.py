# C06: escaped markers are literal; marker-free strings are untouched.  Exhaustive over the
# grammar alphabet through the Token hook (parse trees) and through rendering (text).
import itertools
from common import *  # noqa

ALPHA = ['$', '{', '}', '[', '\\', ':', 'a']


def run(tier, rng, C):
    maxlen = 6 if tier == 'quick' else 8
    cases = []
    n = 0
    for L in range(0, maxlen + 1):
        # the closing bracket joins the alphabet for all but the longest strings
        for tup in itertools.product(ALPHA + ([']'] if L < maxlen else []), repeat=L):
            s = ''.join(tup)
            cid = 't%07d' % n
            n += 1
            cases.append({'id': cid, 'line': '%s token S%s' % (cid, hx(s)), 'show': repr(s),
                          'nontrivial': ('${' in s or '$[' in s or '\\' in s)})
    # random long strings with nesting and multi-byte characters, rendered against a root
    pieces = ['${a}', '${b:c}', '${a${d}}', '\\${a}', '\\\\${a}', '\\$[x]', '$[x]', '}', '{', '$', '\\', 'é', 'x:y', '${', '\\}', '${a\\}b}', ']', '$[', '$[ x == ${a} ]', ' ']
    nr = 2000 if tier == 'quick' else 50000
    for i in range(nr):
        s = ''.join(rng.choice(pieces) for _ in range(rng.randint(1, 8)))
        cid = 'u%07d' % i
        cases.append({'id': cid, 'line': '%s token S%s' % (cid, hx(s)), 'show': repr(s), 'nontrivial': True})
        cid = 'v%07d' % i
        root = ('m', [(S('a'), S('A')), (S('b'), ('m', [(S('c'), I(3))])), (S('d'), S('')), (S('aA'), S('nested')),
                      (S('a}b'), S('brace')), (S('s'), S(s))])
        cases.append({'id': cid, 'line': '%s value 1 %s' % (cid, enc(root)), 'show': 'render ' + repr(s), 'nontrivial': True})

    def oracle(cases, mobs, iobs):
        fails = []
        for c in cases:
            if not c['id'].startswith('t'):
                continue
            s = eval(c['show'])
            o = iobs.get(c['id'], '')
            if '${' not in s and '$[' not in s and o != 'none':
                fails.append({'key': 'marker-free-string-touched', 'severity': 'fail', 'show': c['show'], 'lines': [c['line']],
                              'reason': 'string without a reference marker is not passed through: ' + o[:100],
                              'impl': o[:200], 'size': len(c['line'])})
        return fails
    rule = ('exhaustive: every string of length <= %d over {$ { } [ \\ : a} (and ] below that length) (parse tree through the Token hook, compared with the '
            'model parser); %d random concatenations of reference / escape / brace pieces with multi-byte characters, parse '
            'tree and rendered text; non-trivial = contains a marker or a backslash' % (maxlen, nr))
    return C.standard_run(cases, rule, key_fn=lambda c, m, i, r: 'parse-differs', extra_oracle=oracle, exhaustive=True)

# C03: a whole-value reference yields the final rendered value at its path.
import valgen as V
from common import *  # noqa


def lookup(v, segs):
    for s in segs:
        if v is None or v is True or v is False or v[0] != 'map':
            return ('<nolookup>',)
        nxt = [x for k, x, _ in v[1] if k == ('str', s)]
        if not nxt:
            return ('<missing>',)
        v = nxt[0]
    return v


def norm_top(v):
    if v and v is not True and v[0] == 'map':
        return ('map', sorted(v[1], key=repr))
    return v


def run(tier, rng, C):
    n = 2500 if tier == 'quick' else 80000
    cases, meta = [], {}
    for i in range(n):
        layers, info = V.ranked_root(rng)
        if i % 9 == 0:
            # missing path
            layers[0] = ('m', layers[0][1] + [(S('mk'), S('${r0:nope%d}' % i if i % 2 else '${gone}'))])
        cid = C.case_id('a', i)
        cases.append({'id': cid, 'line': V.stack_line(cid, 'value', layers), 'show': V.stack_show(layers),
                      'nontrivial': sum(1 for k in info if info[k]) >= 2})
        meta[cid] = info
        # permuted twin: same entries, different written order
        l2 = [('m', rng.sample(l[1], len(l[1]))) for l in layers]
        cid2 = C.case_id('b', i)
        cases.append({'id': cid2, 'line': V.stack_line(cid2, 'value', l2), 'show': V.stack_show(l2), 'nontrivial': False,
                      'twin': cid})

    # long chains of whole-value references (head -> l1 -> ... -> target), written head-first or target-first:
    # every link renders to the target's value as long as the chain stays within the documented depth of 64
    for i in range(24 if tier == 'quick' else 400):
        ln = rng.choice([rng.randint(2, 30), rng.randint(31, 50), rng.randint(51, 63)])
        tgt = rng.choice([I(7), S('txt'), B(False), N, ('l', [I(1), S('two')]), M(('x', I(1)), ('y', ('l', [S('z')])))])
        es = [(S('l%d' % ln), tgt)] + [(S('l%d' % j), S('${l%d}' % (j + 1))) for j in range(ln)]
        if i % 3 == 0:
            es.reverse()
        elif i % 3 == 1:
            rng.shuffle(es)
        layers = [('m', es)]
        cid = C.case_id('c', i)
        cases.append({'id': cid, 'line': V.stack_line(cid, 'value', layers), 'show': 'chain of %d whole-value references to %s' % (ln, show(tgt)),
                      'nontrivial': True, 'must_render': True})
        meta[cid] = {'l%d' % j: [('whole', 'l%d' % ln)] for j in range(ln)}

    # paths with empty segments: a trailing / leading / doubled colon, a segment that renders to the empty
    # string, the key with the empty name -- each segment is looked up as it stands
    for i in range(40 if tier == 'quick' else 800):
        has_empty = rng.random() < 0.6
        cfg = [(S('x'), I(1))] + ([(S(''), rng.choice([I(5), S('five'), M(('y', I(2)))]))] if has_empty else [])
        rng.shuffle(cfg)
        form = rng.choice(['${cfg:}', '${cfg:${e}}', 'v=${cfg:}', '${:cfg}', '${cfg::x}', '${${e}}', '${cfg:${e}:y}', '${${e}:x}'])
        es = [(S('cfg'), ('m', cfg)), (S('e'), S('')), (S('t'), S(form))]
        if rng.random() < 0.3:
            es.append((S(''), M(('x', I(9)))))          # a top-level parameter with the empty name
        rng.shuffle(es)
        layers = [('m', es)]
        cid = C.case_id('e', i)
        cases.append({'id': cid, 'line': V.stack_line(cid, 'value', layers), 'show': V.stack_show(layers), 'nontrivial': True})
        meta[cid] = {}

    def oracle(cases, mobs, iobs):
        fails = []
        for c in cases:
            o = iobs.get(c['id'], '')
            if obs_kind(o) in ('panic', 'abort', 'timeout'):
                fails.append({'key': 'lookup-crashes', 'severity': 'fail', 'show': c['show'], 'lines': [c['line']],
                              'reason': 'rendering did not return a value or an error', 'impl': C.describe(o), 'size': len(c['line'])})
                continue
            if c.get('must_render') and obs_kind(o) != 'ok':
                fails.append({'key': 'chain-rejected', 'severity': 'fail', 'show': c['show'], 'lines': [c['line']],
                              'reason': 'an acyclic chain of whole-value references within the depth limit did not render',
                              'impl': C.describe(o), 'size': len(c['line'])})
                continue
            if 'twin' in c:
                o1 = iobs.get(c['twin'], '')
                a_ok, b_ok = obs_kind(o) == 'ok', obs_kind(o1) == 'ok'
                bad = None
                if a_ok != b_ok:
                    bad = 'outcome depends on the order in which parameters are written'
                elif a_ok and norm_top(C.canon_value(o)) != norm_top(C.canon_value(o1)):
                    bad = 'rendered values depend on the order in which parameters are written'
                if bad:
                    fails.append({'key': 'order-dependent', 'severity': 'fail', 'show': c['show'], 'lines': [c['line']],
                                  'reason': bad + '; twin: ' + C.describe(o1)[:200], 'impl': C.describe(o), 'size': len(c['line'])})
                continue
            if obs_kind(o) != 'ok':
                continue
            out = C.canon_value(o)
            for k, refs in meta[c['id']].items():
                if k.startswith('__'):
                    continue
                for kind, tp in refs:
                    if kind not in ('whole', 'nested'):
                        continue
                    got = lookup(out, [k])
                    want = lookup(out, tp.split(':'))
                    if got != want:
                        fails.append({'key': 'whole-ref-not-final-value', 'severity': 'fail', 'show': c['show'], 'lines': [c['line']],
                                      'reason': 'parameter %s = ${%s} rendered to %r but the rendered value at that path is %r'
                                                % (k, tp, got, want), 'impl': C.describe(o), 'size': len(c['line'])})
        return fails
    rule = ('%d acyclic-by-rank reference graphs over 2-8 keys (whole-value, embedded, list element, mapping value, layer, nested '
            'path references; targets of every kind incl. sub-paths) each with a twin whose entries are written in another '
            'order, plus missing-path cases, plus chains of 2-63 whole-value references to targets of every kind, plus paths with empty segments (trailing / leading / doubled colon, a segment rendering to the empty string, the key with the empty name); non-trivial = >= 2 referencing keys; oracles: out[k] == out@path on the '
            'implementation\'s own output, twin equality, model/impl comparison' % n)
    return C.standard_run(cases, rule, key_fn=lambda c, m, i, r: 'model-impl-differ', extra_oracle=oracle)
